"""
C19 — copies and save/load round-trips reproduce the object exactly.

E1: structures x dtype x provenance (how the object came to exist) x copy operation.
"""
import os
import shutil
import tempfile
import itertools
import numpy as np
import torch
import torchtt
from .. import ref, space, values
from ..core import Outcome
from ..lib import build, call, check_tt, V, exc_name, TT

PROPERTY = 'C19'
CHUNK = 32
RULE = ('every (structure, dtype, provenance, copy operation) inside the bounds executed once; distinct = that tuple; '
        'non-trivial = interior rank>1 and a mode>1')
ASSUMPTIONS = ['CPU only: to(device)/cpu() are exercised with the CPU device']
PROV = ['leaf', 'ttsvd', 'ttsvd_trunc', 'ttsvd_rmax', 'ttsvd_rmax_list', 'slice', 't', 'conj', 'detach', 'round', 'sum']
OPS = ['saveload', 'clone', 'detach', 'to_f64', 'to_f32', 'to_c128', 'to_c64', 'cpu', 'numpy', 'to_none']
_TMP = None


def init_worker():
    global _TMP
    _TMP = tempfile.mkdtemp(prefix='ttmc_c19_')
    import atexit
    atexit.register(shutil.rmtree, _TMP, True)


def BOUNDS(tier):
    return {'max_order_tensor': 4 if tier == 'quick' else 6, 'max_order_operator': 3, 'provenance': PROV, 'ops': OPS,
            'dtypes': ['f64', 'c128', 'f32']}


def cases(tier, seed):
    D = 4 if tier == 'quick' else 6
    salt = seed % 7
    for d in range(1, D + 1):
        sizes = space.sizes_distinct(d) if d <= 3 else [s for s in space.sizes_distinct(d) if s.count(1) <= 1]
        rks = space.ranks_binary(d) if d <= 3 else space.ranks_dev(d, maxdev=1)
        for N in sizes:
            for R in rks:
                for dt in ('f64', 'c128', 'f32'):
                    for pv in PROV:
                        if pv == 't':
                            continue
                        if pv in ('slice', 'sum') and d > 4:
                            continue
                        for op in OPS:
                            yield {'k': 't', 'N': N, 'R': R, 'dt': dt, 'pv': pv, 'op': op, 's': salt}
    PM, PN = (2, 3, 2), (3, 2, 4)
    for d in range(1, 4):
        for mask in itertools.product((0, 1), repeat=d):
            M = [1 if m else PM[i] for i, m in enumerate(mask)]
            N = [PN[i] for i in range(d)]
            for R in space.ranks_binary(d):
                for dt in ('f64', 'c128', 'f32'):
                    for pv in ('leaf', 'ttsvd', 'ttsvd_rmax', 'ttsvd_rmax_list', 't', 'conj', 'round'):
                        for op in OPS:
                            yield {'k': 'm', 'M': M, 'N': N, 'R': R, 'dt': dt, 'pv': pv, 'op': op, 's': salt}


def _provenance(c):
    """build the object the way the case says; returns the TT (its cores are the truth from now on)"""
    dt = c['dt']
    fam = 'gauss'
    if c['k'] == 't':
        st = space.tensor_struct(c['N'], c['R'], dt, fam)
    else:
        st = space.operator_struct(c['M'], c['N'], c['R'], dt, fam)
    pv = c['pv']
    if pv == 'slice':
        big = dict(st, N=[n + 2 for n in st['N']])
        x, _ = build(big, 'a', c['s'])
        return x[tuple(slice(1, n + 1) for n in st['N'])], st
    if pv == 'sum':
        big = dict(st, N=st['N'] + [3], R=st['R'][:-1] + [2, 1])
        x, _ = build(big, 'a', c['s'])
        return x.sum([len(st['N'])]), st
    x, cx = build(st, 'a', c['s'])
    if pv == 'leaf':
        return x, st
    if pv in ('ttsvd', 'ttsvd_trunc'):
        full = ref.contract(cx).to(ref.DT[dt])
        eps = 1e-12 if pv == 'ttsvd' else 0.3
        if c['k'] == 't':
            return torchtt.TT(full, eps=eps), st
        return torchtt.TT(full, [(m, n) for m, n in zip(c['M'], c['N'])], eps=eps), st
    if pv in ('ttsvd_rmax', 'ttsvd_rmax_list'):
        # TT-SVD cut by the rank cap (binding wherever the structure has a rank > 1) rather than by eps; scalar and per-bond form
        full = ref.contract(cx).to(ref.DT[dt])
        d = len(c['N'])
        rmax = 1 if pv == 'ttsvd_rmax' else [1] + [1 + (i % 2) for i in range(d - 1)] + [1]
        if c['k'] == 't':
            return torchtt.TT(full, eps=1e-12, rmax=rmax), st
        return torchtt.TT(full, [(m, n) for m, n in zip(c['M'], c['N'])], eps=1e-12, rmax=rmax), st
    if pv == 't':
        return x.t(), st
    if pv == 'conj':
        return x.conj(), st
    if pv == 'detach':
        torchtt.grad.watch(x)
        return (x * 2.0).detach(), st
    if pv == 'round':
        return (x + x).round(1e-10), st
    raise KeyError(pv)


def run_case(c):
    op, dt = c['op'], c['dt']
    x, st = _provenance(c)
    nt = space.nontrivial(st)
    key = '%s|%s|%s' % (op, c['pv'], space.skey(st))
    if not isinstance(x, TT):
        return Outcome(key, False, 'provenance gave ' + type(x).__name__, transitions=1, compared=0)
    cores0 = [cc.detach().clone() for cc in x.cores]
    meta0 = (bool(x.is_ttm), list(x.M) if x.is_ttm else [], list(x.N), [int(r) for r in x.R])
    dense0 = ref.contract(cores0)
    rtypes = sorted({type(r).__name__ for r in x.R})
    viol = []
    site = op
    if op == 'saveload':
        path = os.path.join(_TMP or tempfile.gettempdir(), 'x_%d.TT' % os.getpid())
        _, e = call(torchtt.save, x, path)
        if e is not None:
            return Outcome(key, nt, 'save raises', violations=[V('save.raises_' + exc_name(e), repr(e))])
        y, e = call(torchtt.load, path)
        try:
            os.remove(path)
        except OSError:
            pass
        if e is not None:
            tag = 'numpy_int_ranks' if 'int64' in rtypes or 'int32' in rtypes or 'intc' in rtypes else 'plain'
            return Outcome(key, nt, 'load raises', violations=[V('load.raises_%s.%s' % (exc_name(e), tag), '%r (rank types %s)' % (e, rtypes))])
        if not isinstance(y, TT):
            return Outcome(key, nt, 'load type', violations=[V('load.not_a_TT', type(y).__name__)])
        meta1 = (bool(y.is_ttm), list(y.M) if y.is_ttm else [], list(y.N), [int(r) for r in y.R])
        if meta1 != meta0:
            viol.append(V('saveload.metadata', '%s -> %s' % (meta0, meta1)))
        elif len(y.cores) != len(cores0) or any(a.dtype != b.dtype or not torch.equal(a, b) for a, b in zip(y.cores, cores0)):
            viol.append(V('saveload.cores_not_bit_identical', ''))
        return Outcome(key, nt, 'saveload', violations=viol)
    want_dtype = x.cores[0].dtype
    if op == 'clone':
        y, e = call(x.clone)
    elif op == 'detach':
        y, e = call(x.detach)
    elif op == 'cpu':
        y, e = call(x.cpu)
    elif op == 'to_none':
        y, e = call(x.to)
    elif op.startswith('to_'):
        want_dtype = ref.DT[op[3:]]
        if x.cores[0].dtype.is_complex and not want_dtype.is_complex:
            return Outcome(key + '|skip', False, 'skipped complex->real', transitions=0, compared=0)
        y, e = call(x.to, dtype=want_dtype)
    elif op == 'numpy':
        y, e = call(x.numpy)
        if e is not None:
            return Outcome(key, nt, 'raises', violations=[V('numpy.raises_' + exc_name(e), repr(e))])
        if not isinstance(y, np.ndarray):
            return Outcome(key, nt, 'type', violations=[V('numpy.not_ndarray', type(y).__name__)])
        if list(y.shape) != list(dense0.shape):
            return Outcome(key, nt, 'shape', violations=[V('numpy.shape', '%s vs %s' % (list(y.shape), list(dense0.shape)))])
        tol = 1e3 * ref.unit_roundoff(want_dtype) * ref.absbound(cores0)
        if not ref.close(ref.up(torch.tensor(y)), dense0, tol):
            viol.append(V('numpy.value', 'max diff %.3e' % ref.maxdiff(ref.up(torch.tensor(y)), dense0)))
        return Outcome(key, nt, 'numpy', violations=viol)
    else:
        raise KeyError(op)
    if e is not None:
        return Outcome(key, nt, 'raises', violations=[V(site + '.raises_' + exc_name(e), repr(e))])
    same_dtype = want_dtype == x.cores[0].dtype
    want = dense0.to(torch.complex128) if want_dtype.is_complex else dense0
    bound = ref.absbound(cores0)
    if same_dtype:
        # same dtype: the copy must hold bit-identical cores (stronger than comparing dense values, and independent of
        # how a lazily conjugated view is contracted)
        viol = check_tt(y, want, site, want_dtype, False, bound, ttm=meta0[0])
        if isinstance(y, TT) and not viol and (len(y.cores) != len(cores0) or any(
                not torch.equal(a.detach(), b) for a, b in zip(y.cores, cores0))):
            viol.append(V(site + '.cores_not_bit_identical', ''))
    else:
        lo = want_dtype if ref.unit_roundoff(want_dtype) > ref.unit_roundoff(x.cores[0].dtype) else x.cores[0].dtype
        viol = check_tt(y, want, site, want_dtype, False, bound * 4, ttm=meta0[0], dtype_ref=lo)
    if isinstance(y, TT) and not viol:
        meta1 = (bool(y.is_ttm), list(y.M) if y.is_ttm else [], list(y.N), [int(r) for r in y.R])
        if meta1 != meta0:
            viol.append(V(site + '.metadata', '%s -> %s' % (meta0, meta1)))
        if op == 'clone':
            mine = {cc.untyped_storage().data_ptr() for cc in x.cores}
            if any(cc.untyped_storage().data_ptr() in mine for cc in y.cores):
                viol.append(V('clone.shares_storage', 'a cloned core shares storage with the original'))
        if op == 'detach' and any(cc.requires_grad for cc in y.cores):
            viol.append(V('detach.requires_grad', ''))
    # the source object must be untouched
    if any(not torch.equal(a.detach(), b) for a, b in zip(x.cores, cores0)):
        viol.append(V(site + '.source_changed', ''))
    # ... and stay untouched when the copy is modified in place afterwards (metadata lists must not be shared either)
    if isinstance(y, TT) and not viol:
        k = len(y.cores) - 1
        shp = list(y.cores[k].shape)
        shp[1] += 1
        _, e2 = call(y.set_core, k, torch.ones(shp, dtype=y.cores[k].dtype))
        if e2 is None:
            meta_now = (bool(x.is_ttm), list(x.M) if x.is_ttm else [], list(x.N), [int(r) for r in x.R])
            shape_now = list(getattr(x, 'shape', []))
            want_shape = [(m, n) for m, n in zip(meta0[1], meta0[2])] if meta0[0] else list(meta0[2])
            if meta_now != meta0 or shape_now != want_shape:
                viol.append(V(site + '.copy_shares_metadata_with_source', 'after set_core on the copy the source reports %s (was %s)' % (meta_now, meta0)))
            if any(not torch.equal(a.detach(), b) for a, b in zip(x.cores, cores0)):
                viol.append(V(site + '.copy_shares_cores_with_source', 'set_core on the copy changed the source'))
    return Outcome(key, nt, op, violations=viol)


# ------------------------------------------------------------------------------------------------ second tier: histories
# every history of depth 2 (3 thorough) whose last event belongs to this property, on the explicit-state explorer; the last
# event is compared with its dense definition on the operands as they are in that state (ttmc/history_tier.py)
from .. import history_tier as _ht

_cases_e1, _run_case_e1 = cases, run_case


def cases(tier, seed):
    yield from _cases_e1(tier, seed)
    yield from _ht.cases(PROPERTY, tier)


def run_case(c):
    if c.get('g') in ('E2', 'E2R'):
        return _ht.run_case(PROPERTY, c)
    return _run_case_e1(c)
