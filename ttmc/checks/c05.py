"""
C05 — every reachable TT object is structurally well formed.

E2: explicit-state search over call histories from 5 initial pools; the well-formedness monitor runs on every live object
after every transition (see ttmc/explore.py).
"""
import json
from .. import explore
from ..core import Outcome
from ..lib import V

PROPERTY = 'C05'
CHUNK = 1
MON = ('wf',)


def CASE_BUDGET(tier):
    # one case is a whole subtree (up to ~1e5 transitions at depth 3); the watchdog budget has to cover it on a busy box
    return 600 if tier == 'quick' else 5400

PREFIX = 'wf.'
RULE = ('one case = the subtree below one first transition of one initial pool, searched depth-first to the depth bound; states = '
        'distinct canonical state keys (structure, dtype, grad flag, contiguity, alias classes of all live objects); transitions = '
        'real library calls; the monitor is evaluated on every live object in every state; non-trivial = a state holding a '
        'derived object with a rank > 1')
ASSUMPTIONS = ['from depth 2 on an event must involve the newest object or be an in-place event (older-object events commute with the '
               'previous creation and are explored from the shorter history)', 'the empty TT(None) is the one allowed special object',
               'operands of one call have the same dtype (the library has no dtype-promotion contract)', 'iterative routines run with nswp=4 inside histories (their accuracy is C11-C14\'s subject, their structural output is checked here)']


def BOUNDS(tier):
    return {'depth': 2 if tier == 'quick' else 3, 'initial_pools': explore.NPOOLS, 'pool_5': 'uniform order-4 structure (one core shape), depth 2 in both tiers', 'pool_cap': explore.MAXPOOL,
            'events': sorted(explore.EVBYNAME), 'slow_events_included': 'depth 1 always; deeper levels in the thorough tier', 'merged_depth': None if tier == 'quick' else '4 (pool 2: order-1 objects, merging from depth 2 per shard)'}


def cases(tier, seed):
    # the slow (iterative) entry points are events at the root level in both tiers; below the root only the fast events
    for pid in range(explore.NPOOLS):
        n = explore.root_event_count(pid)
        for i in range(n):
            yield {'pid': pid, 'first': i, 'depth': 2 if (tier == 'quick' or pid == 5) else 3, 'slow': False}     # pool 5 (order 4, uniform): depth 2 in both tiers
    if tier == 'thorough':
        # depth 4 with merging of equal canonical states (per shard), on the two smallest pools
        for pid in (2,):
            n = explore.root_event_count(pid)
            for i in range(n):
                yield {'pid': pid, 'first': i, 'depth': 4, 'slow': False, 'merge': 2}


def run_case(c, mon=MON, prefix=PREFIX):
    ex = explore.Explorer(c['pid'], c['depth'], c['slow'], c.get('merge'), mon)
    ex.run_root(c['first'])
    viol = [V(cls, '%s | pool %d history %s' % (detail, c['pid'], json.dumps(hist))) for cls, (hist, detail) in ex.viol.items() if cls.startswith(prefix) or cls.startswith('glob.')]
    return Outcome(sorted(ex.states), False, 'raised=%d' % (1 if ex.raised else 0), transitions=ex.transitions, compared=ex.monitor_evals,
                   violations=viol, nt_keys=sorted(ex.nontrivial_states),
                   extra={'raising_transitions': ex.raised, 'distinct_event_outcomes': len(ex.outcomes)})
