"""
C09 — cat, pad, diag, mprod, to_ttm, conj, clone are exact.

E1: complete enumeration of structures x axes x operand counts x pad widths/values x mode subsets, compared with
torch.cat / constant padding / block-diagonal padding / diagonal embedding-extraction / mode product / reshape / conj.
"""
import itertools
import numpy as np
import torch
import torch.nn.functional as F
import torchtt
from .. import ref, space, values
from ..core import Outcome
from ..lib import build, call, check_tt, V, exc_name, TT

PROPERTY = 'C09'
CHUNK = 64
RULE = ('every (operation, structures, axis / widths / value / mode subset, dtype) inside the bounds executed once; '
        'distinct = canonical key of that tuple; non-trivial = interior rank>1 and a mode>1')
ASSUMPTIONS = ['operator pad: padded diagonal entries outside the leading/trailing corner blocks are not constrained by the statement and not compared',
               'diag of a rectangular operator: per-mode main diagonal (length min(M_k,N_k))']
DTF = [('f64', 'int'), ('c128', 'int'), ('f32', 'int1'), ('f64', 'gauss')]
W = [(0, 0), (1, 0), (0, 2), (1, 2), (2, 1)]


def BOUNDS(tier):
    return {'max_order': 3 if tier == 'quick' else 4, 'pad_widths': W, 'pad_values': [0.0, 3.0], 'cat_operands': [2, 3],
            'cat_uniform': 'orders 3..5, all modes n in {2,3}, all interior ranks r in {1,2} (operand j: r+j), every axis', 'dtypes': DTF}


def cases(tier, seed):
    D = 3 if tier == 'quick' else 4
    salt = seed % 7
    for d in range(1, D + 1):
        sizes = [s for s in space.sizes_distinct(d) if d <= 3 or s.count(1) <= 1]
        rks = space.ranks_binary(d) if d <= 3 else space.ranks_dev(d, maxdev=1)
        for N in sizes:
            for R in rks:
                for dt, fam in DTF:
                    base = {'N': N, 'R': R, 'dt': dt, 'fam': fam, 's': salt}
                    for op in ('to_ttm', 'conj', 'clone', 'diag_t2m'):
                        yield dict(base, op=op)
                    # mprod: single modes (int form) and every subset (list form)
                    for k in range(d):
                        yield dict(base, op='mprod', modes=[k], form='int')
                    for sub in space.subsets(d, nonempty=True):
                        yield dict(base, op='mprod', modes=sub, form='list')
                        if len(sub) > 1:
                            yield dict(base, op='mprod', modes=sub[::-1], form='list')
                    # pad on every trailing subset of modes
                    if dt in ('f64', 'c128') and fam == 'int':
                        for k in range(0, d + 1):
                            wsets = itertools.product(W, repeat=k) if (k <= 2 or tier == 'thorough') else itertools.product(W[1:4], repeat=k)
                            for ws in wsets:
                                for val in (0.0, 3.0):
                                    yield dict(base, op='pad', w=[list(w) for w in ws], val=val)
                # cat
                if d <= 3 or tier == 'thorough':
                    for ax in range(d):
                        for nops in (2, 3):
                            for dt, fam in DTF[:3]:
                                yield {'op': 'cat', 'N': N, 'R': R, 'ax': ax, 'nops': nops, 'dt': dt, 'fam': fam, 's': salt}
    # cat on uniform structures (all modes equal, all interior ranks equal, operands too): every core away from the axis has the
    # same shape, so anything keyed or cached by core shape collides (the distinct-size alphabet above never produces this)
    for d in (3, 4, 5):
        for n in (2, 3):
            for r in (1, 2):
                for ax in range(d):
                    for nops in (2, 3):
                        for dt, fam in DTF[:3]:
                            yield {'op': 'cat', 'N': [n] * d, 'R': [1] + [r] * (d - 1) + [1], 'ax': ax, 'nops': nops, 'dt': dt, 'fam': fam, 's': salt, 'uniform': True}
    # operators: diag (square and rectangular), pad, conj, clone
    PM, PN = (2, 3, 2), (3, 2, 4)
    for d in range(1, 3 if tier == 'quick' else 4):
        for mask in itertools.product((0, 1, 2), repeat=d):
            # 0: rectangular (PM,PN)  1: square PM  2: singleton pair
            M = [PM[i] if m in (0, 1) else 1 for i, m in enumerate(mask)]
            N = [PN[i] if m == 0 else (PM[i] if m == 1 else 1) for i, m in enumerate(mask)]
            for R in space.ranks_binary(d):
                for dt, fam in DTF[:2]:
                    base = {'k': 'm', 'M': M, 'N': N, 'R': R, 'dt': dt, 'fam': fam, 's': salt}
                    for op in ('diag_m2t', 'conj', 'clone'):
                        yield dict(base, op=op)
                    if dt == 'f64':
                        for k in range(0, d + 1):
                            for ws in itertools.product(W[:4], repeat=k):
                                for val in (0.0, 3.0):
                                    yield dict(base, op='pad', w=[list(w) for w in ws], val=val)


def run_case(c):
    op, dt, fam = c['op'], c['dt'], c['fam']
    dtype = ref.DT[dt]
    exact = fam.startswith('int')
    if c.get('k') == 'm':
        return _operator_case(c)
    N, R = c['N'], c['R']
    d = len(N)
    st = space.tensor_struct(N, R, dt, fam)
    x, cx = build(st, 'a', c['s'])
    dx = ref.contract(cx)
    bx = ref.absbound(cx)
    nt = space.nontrivial(st)
    key = '%s|%s' % (op, space.skey(st))
    R_expect = None
    ttm = False
    if op == 'to_ttm':
        fn, want, bound, site, ttm, R_expect = x.to_ttm, dx.reshape(N + [1] * d), bx, 'to_ttm', True, R
    elif op == 'conj':
        fn, want, bound, site, R_expect = x.conj, dx.conj(), bx, 'conj', R
    elif op == 'clone':
        fn, want, bound, site, R_expect = x.clone, dx, bx, 'clone', R
    elif op == 'diag_t2m':
        want = torch.zeros(N + N, dtype=dx.dtype)
        for idx in itertools.product(*[range(n) for n in N]):
            want[idx + idx] = dx[idx]
        fn, bound, site, ttm, R_expect = (lambda: torchtt.diag(x)), bx, 'diag.tensor_to_operator', True, R
    elif op == 'mprod':
        modes, form = c['modes'], c['form']
        OUT = (5, 4, 6, 3, 2)
        mats = [values.dense_tensor([OUT[k], N[k]], dt, 'int1' if exact else 'gauss', c['s'], 'F%d' % k) for k in modes]
        want = dx
        for k, Mk in zip(modes, mats):
            want = torch.movedim(torch.tensordot(ref.up(Mk), want, dims=([1], [k])), 0, k)
        if form == 'int':
            fn = lambda: x.mprod(mats[0].clone(), modes[0])
        else:
            fn = lambda: x.mprod([m.clone() for m in mats], list(modes))
        bound = bx * float(np.prod([2.0 * N[k] + 1 for k in modes])) * (1 if exact else 10)
        site, R_expect = 'mprod.' + form, R
        key += '|%s|%s' % (modes, form)
    elif op == 'pad':
        w, val = c['w'], c['val']
        k = len(w)
        padspec = []
        for (b, a) in reversed(w):
            padspec += [b, a]
        want = F.pad(dx, padspec, value=val) if k else dx
        fn = lambda: torchtt.pad(x, tuple(tuple(t) for t in w), val)
        bound, site = bx + abs(val), 'pad.tensor.' + ('zero' if val == 0 else 'nonzero')
        key += '|%s|%s' % (w, val)
    elif op == 'cat':
        ax, nops = c['ax'], c['nops']
        ops, dens = [x], [dx]
        bound = bx
        for j in range(1, nops):
            Nj = list(N)
            Nj[ax] = N[ax] + j          # distinct sizes on the axis
            Rj = space.ranks_binary(d, offset=j)[min(j, len(space.ranks_binary(d)) - 1)] if d > 1 else [1, 1]
            if c.get('uniform'):
                Rj = [1] + [c['R'][1] + j] * (d - 1) + [1]
            sj = space.tensor_struct(Nj, Rj, dt, fam)
            tj, cj = build(sj, 'op%d' % j, c['s'])
            ops.append(tj)
            dens.append(ref.contract(cj))
            bound = max(bound, ref.absbound(cj))
            key += '|' + space.skey(sj)
        want = torch.cat(dens, dim=ax)
        fn = lambda: torchtt.cat(tuple(ops), ax)
        site = 'cat'
        key += '|ax%d' % ax
    else:
        raise KeyError(op)
    res, e = call(fn)
    if e is not None:
        return Outcome(key, nt, 'raises:' + exc_name(e), violations=[V(site + '.raises_' + exc_name(e), repr(e))])
    viol = check_tt(res, want, site, dtype, exact, bound, ttm=ttm)
    if isinstance(res, TT) and not viol and R_expect is not None and [int(r) for r in res.R] != list(R_expect):
        viol.append(V(site + '.rank_changed', 'ranks %s, operand %s' % (res.R, R_expect)))
    if op == 'clone' and isinstance(res, TT) and not viol:
        mine = {cc.untyped_storage().data_ptr() for cc in x.cores}
        if any(cc.untyped_storage().data_ptr() in mine for cc in res.cores):
            viol.append(V('clone.shares_storage', 'a cloned core shares storage with the original'))
    return Outcome(key, nt, 'R=%s' % (res.R if isinstance(res, TT) else '?'), violations=viol)


def _operator_case(c):
    op, dt, fam = c['op'], c['dt'], c['fam']
    dtype = ref.DT[dt]
    exact = fam.startswith('int')
    M, N, R = c['M'], c['N'], c['R']
    d = len(N)
    st = space.operator_struct(M, N, R, dt, fam)
    A, cA = build(st, 'A', c['s'])
    dA = ref.contract(cA)
    bA = ref.absbound(cA)
    nt = space.nontrivial(st)
    key = '%s|%s' % (op, space.skey(st))
    if op in ('conj', 'clone'):
        res, e = call(getattr(A, op))
        if e is not None:
            return Outcome(key, nt, 'raises', violations=[V('ttm.%s.raises_%s' % (op, exc_name(e)), repr(e))])
        viol = check_tt(res, dA.conj() if op == 'conj' else dA, 'ttm.' + op, dtype, True, bA, ttm=True)
        return Outcome(key, nt, op, violations=viol)
    if op == 'diag_m2t':
        K = [min(m, n) for m, n in zip(M, N)]
        want = torch.zeros(K, dtype=dA.dtype)
        for idx in itertools.product(*[range(k) for k in K]):
            want[idx] = dA[idx + idx]
        site = 'diag.operator_to_tensor.' + ('square' if M == N else 'rectangular')
        res, e = call(torchtt.diag, A)
        if e is not None:
            return Outcome(key, nt, 'raises', violations=[V(site + '.raises_' + exc_name(e), repr(e))])
        return Outcome(key, nt, 'diag', violations=check_tt(res, want, site, dtype, exact, bA, ttm=False))
    if op == 'pad':
        w, val = c['w'], c['val']
        k = len(w)
        key += '|%s|%s' % (w, val)
        site = 'pad.operator.' + ('full' if k == d else ('none' if k == 0 else 'partial'))
        res, e = call(lambda: torchtt.pad(A, tuple(tuple(t) for t in w), val))
        if e is not None:
            return Outcome(key, nt, 'raises:' + exc_name(e), violations=[V(site + '.raises_' + exc_name(e), repr(e))])
        if not isinstance(res, TT) or not res.is_ttm:
            return Outcome(key, nt, 'kind', violations=[V(site + '.kind', type(res).__name__)])
        ww = [[0, 0]] * (d - k) + [list(t) for t in w]
        Mp = [m + b + a for m, (b, a) in zip(M, ww)]
        Np = [n + b + a for n, (b, a) in zip(N, ww)]
        try:
            got = ref.contract(res.cores)
        except ValueError as ex:
            return Outcome(key, nt, 'malformed', violations=[V(site + '.malformed_cores', ex)])
        if list(got.shape) != Mp + Np:
            return Outcome(key, nt, 'shape', violations=[V(site + '.shape', 'result %s expected %s' % (list(got.shape), Mp + Np))])
        viol = []
        # classification of every entry
        for i in itertools.product(*[range(m) for m in Mp]):
            for j in itertools.product(*[range(n) for n in Np]):
                cls = []
                for q in range(d):
                    b, a = ww[q]
                    iq, jq = i[q], j[q]
                    if b <= iq < b + M[q] and b <= jq < b + N[q]:
                        cls.append('o')
                    elif iq < b and jq < b:
                        cls.append('l' if iq == jq else 'x')
                    elif iq >= b + M[q] and jq >= b + N[q]:
                        cls.append('t' if iq - (b + M[q]) == jq - (b + N[q]) else 'x')
                    elif (iq < b or iq >= b + M[q]) or (jq < b or jq >= b + N[q]):
                        cls.append('x')
                v = got[i + j]
                if all(t == 'o' for t in cls):
                    w_ = dA[tuple(i[q] - ww[q][0] for q in range(d)) + tuple(j[q] - ww[q][0] for q in range(d))]
                    if v != w_:
                        viol.append(V(site + '.original_block_changed', 'entry %s: %r vs %r' % (i + j, v.item(), w_.item())))
                elif 'x' in cls:
                    if v != 0:
                        viol.append(V(site + '.offdiagonal_padding_nonzero', 'entry %s = %r' % (i + j, v.item())))
                elif all(t == 'l' for t in cls) or all(t == 't' for t in cls):
                    if v != val:
                        viol.append(V(site + '.corner_block_not_value_identity', 'entry %s = %r, value %r' % (i + j, v.item(), val)))
                if len(viol) > 3:
                    break
            if len(viol) > 3:
                break
        return Outcome(key, nt, 'pad', violations=viol[:1])
    raise KeyError(op)


# ------------------------------------------------------------------------------------------------ second tier: histories
# every history of depth 2 (3 thorough) whose last event belongs to this property, on the explicit-state explorer; the last
# event is compared with its dense definition on the operands as they are in that state (ttmc/history_tier.py)
from .. import history_tier as _ht

_cases_e1, _run_case_e1 = cases, run_case


def cases(tier, seed):
    yield from _cases_e1(tier, seed)
    yield from _ht.cases(PROPERTY, tier)


def run_case(c):
    if c.get('g') in ('E2', 'E2R'):
        return _ht.run_case(PROPERTY, c)
    return _run_case_e1(c)
