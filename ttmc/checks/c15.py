"""
C15 — gradients through TT operations match the dense derivative.

E1 over programs: all type-correct expression trees (depth 1..2 quick / 1..3 thorough) over the differentiable operations,
closed by a scalarisation, x every choice of tracked operand / tracked core; compared with autograd on the dense model
(the same cores contracted by the checker's differentiable contraction) and with a central finite difference.
"""
import itertools
import numpy as np
import torch
import torch.nn.functional as F
import torchtt
from .. import ref, space, values
from ..core import Outcome
from ..lib import call, V, exc_name, TT

PROPERTY = 'C15'
CHUNK = 16
RULE = ('one case = one program (expression tree + terminal scalarisation) with one tracking choice; distinct = (program, tracking); '
        'non-trivial = the program contains at least one binary TT operation or the tracked operand has rank > 1')
ASSUMPTIONS = ['float64; gradient relative tolerance 1e-9 against the dense model, 1e-5 against central finite differences',
               'gradient accumulation over repeated backward calls is torch semantics and not exercised']
N = [2, 3, 2]
RX, RY, RA = [1, 2, 2, 1], [1, 3, 2, 1], [1, 2, 2, 1]
RANK1 = {'last1': ([1, 2, 1, 1], [1, 3, 1, 1], [1, 2, 1, 1]), 'first1': ([1, 1, 2, 1], [1, 1, 3, 1], [1, 1, 2, 1])}

T_LEAVES = ['x', 'y']
O_LEAVES = ['A']
T_UN = ['neg', 'scal', 'adds', 'subs', 'rsubs', 'divs', 'mprod']
T_BIN = ['add', 'sub', 'mul']
T_MIX = ['matvec', 'rmatvec']       # (O,T) -> T
O_UN = ['negO', 'scalO', 'tO']
O_BIN = ['addO', 'mulO', 'matmat']
T_TERM = ['full_lin', 'sum', 'norm', 'norm2', 'dot_c', 'dot_c_r', 'dot_axis', 'bilinear', 'bilinear_y', 'getitem', 'getitem_none', 'apply_mask', 'cat', 'cat_r', 'pad', 'kron', 'kron_r', 'kron_fn', 'kron_fn_r', 'sum_axes', 'diag', 'mprod_list']
O_TERM = ['full_lin', 'sum', 'norm', 'matvec_c', 'diag', 'getitem', 'kron', 'kron_r', 'pad']
TRACK = [('x', None), ('x', 0), ('x', 1), ('x', 2), ('y', None), ('A', None), ('A', 1), ('all', None)]


def BOUNDS(tier):
    return {'max_depth': 2 if tier == 'quick' else 3, 'operand_shape': N, 'leaf_ranks': {'x': RX, 'y': RY, 'A': RA}, 'leaf_ranks_rank1_bond': RANK1, 'tracking_choices': len(TRACK),
            'ops': T_UN + T_BIN + T_MIX + O_UN + O_BIN, 'terminals': sorted(set(T_TERM + O_TERM))}


def _exprs(depth):
    """returns (list of T-valued expressions, list of O-valued) of nesting depth exactly `depth` (0 = leaf)"""
    T = {0: [('leaf', l) for l in T_LEAVES]}
    O = {0: [('leaf', l) for l in O_LEAVES]}
    for dpt in range(1, depth + 1):
        Tl, Ol = [], []
        lowerT = [e for k in range(dpt) for e in T[k]]
        lowerO = [e for k in range(dpt) for e in O[k]]
        prevT, prevO = T[dpt - 1], O[dpt - 1]
        for op in T_UN:
            Tl += [(op, e) for e in prevT]
        for op in T_BIN:
            for a in prevT:
                for b in (lowerT if dpt == 1 else T[0]):
                    Tl.append((op, a, b))
                    if a != b and b not in prevT:
                        Tl.append((op, b, a))
        for op in T_MIX:
            for a in prevO:
                for b in (T[0]):
                    Tl.append((op, a, b))
            if dpt > 1:
                for b in prevT:
                    Tl.append((op, ('leaf', 'A'), b))
        for op in O_UN:
            Ol += [(op, e) for e in prevO]
        for op in O_BIN:
            for a in prevO:
                Ol.append((op, a, ('leaf', 'A')))
        T[dpt], O[dpt] = Tl, Ol
    return T, O


def cases(tier, seed):
    D = 1 if tier == 'quick' else 2
    T, O = _exprs(D)
    for c in _glist_cases():
        yield c
    for dpt in range(0, D + 1):
        for e in T[dpt]:
            for term in T_TERM:
                for tr in TRACK:
                    if _uses(e, tr[0], term):
                        yield {'e': e, 'term': term, 'kind': 'T', 'track': list(tr)}
        for e in O[dpt]:
            for term in O_TERM:
                for tr in TRACK:
                    if _uses(e, tr[0], term):
                        yield {'e': e, 'term': term, 'kind': 'O', 'track': list(tr)}
    # leaves with a rank-1 bond (last / first): 1x1x1 and r x n x 1 cores take the scalar shortcuts of reduce_dims, sum, getitem
    # and the contractions, where a graph-cutting .item() / float() would not change any value
    for rk in ('last1', 'first1'):
        for dpt in range(0, min(D, 1) + 1):
            for e in T[dpt]:
                for term in T_TERM:
                    for tr in TRACK:
                        if _uses(e, tr[0], term):
                            yield {'e': e, 'term': term, 'kind': 'T', 'track': list(tr), 'rk': rk}
            for e in O[dpt]:
                for term in O_TERM:
                    for tr in TRACK:
                        if _uses(e, tr[0], term):
                            yield {'e': e, 'term': term, 'kind': 'O', 'track': list(tr), 'rk': rk}


def _glist_cases():
    # grad_list over tracked tensors of DIFFERENT orders, both list orders, both groupings
    for prog in ('kron_bx', 'kron_xb', 'dot_axis', 'cat_sum'):
        for order in ('bx', 'xb', 'xbA'):
            for aio in (True, False):
                yield {'kind': 'glist', 'prog': prog, 'order': order, 'aio': aio}


def _leaves(e):
    if e[0] == 'leaf':
        return {e[1]}
    s = set()
    for a in e[1:]:
        s |= _leaves(tuple(a) if isinstance(a, list) else a)
    return s


def _uses(e, who, term):
    lv = _leaves(e)
    if who == 'all':
        return True
    return who in lv


# ------------------------------------------------------------------------------------------------ two interpreters

def _tupleize(e):
    return tuple(_tupleize(a) if isinstance(a, (list, tuple)) else a for a in e)


W1 = None


def _consts():
    c = values.cores_for(space.tensor_struct(N, [1, 2, 2, 1], 'f64', 'gauss'), 'const', 0)
    A0 = values.cores_for(space.operator_struct(N, N, [1, 2, 1, 1], 'f64', 'gauss'), 'constA', 0)
    W = values.dense_tensor([3, 3], 'f64', 'gauss', 0, 'W')
    W0 = values.dense_tensor([4, 2], 'f64', 'gauss', 0, 'W0')
    return c, A0, W, W0


def dense_of(cores):
    res = cores[0].reshape(cores[0].shape[1:])
    for cc in cores[1:]:
        res = torch.tensordot(res, cc, dims=([res.dim() - 1], [0]))
    res = res.reshape(res.shape[:-1])
    if cores[0].dim() == 4:
        d = len(cores)
        res = res.permute([2 * i for i in range(d)] + [2 * i + 1 for i in range(d)])
    return res


def ev_tt(e, env):
    op = e[0]
    if op == 'leaf':
        return env[e[1]]
    a = ev_tt(e[1], env)
    b = ev_tt(e[2], env) if len(e) > 2 else None
    if op in ('neg', 'negO'):
        return -a
    if op in ('scal', 'scalO'):
        return 2.5 * a
    if op == 'adds':
        return a + 1.5
    if op == 'subs':
        return a - 0.5
    if op == 'rsubs':
        return 0.5 - a
    if op == 'divs':
        return a / 2.0
    if op == 'mprod':
        return a.mprod(env['W'], 1)
    if op in ('add', 'addO'):
        return a + b
    if op == 'sub':
        return a - b
    if op in ('mul', 'mulO'):
        return a * b
    if op == 'matvec':
        return a @ b
    if op == 'rmatvec':
        return b @ a
    if op == 'tO':
        return a.t()
    if op == 'matmat':
        return a @ b
    raise KeyError(op)


def ev_dense(e, env):
    op = e[0]
    d = len(N)
    if op == 'leaf':
        return env[e[1]]
    a = ev_dense(e[1], env)
    b = ev_dense(e[2], env) if len(e) > 2 else None
    if op in ('neg', 'negO'):
        return -a
    if op in ('scal', 'scalO'):
        return 2.5 * a
    if op == 'adds':
        return a + 1.5
    if op == 'subs':
        return a - 0.5
    if op == 'rsubs':
        return 0.5 - a
    if op == 'divs':
        return a / 2.0
    if op == 'mprod':
        return torch.movedim(torch.tensordot(env['W'], a, dims=([1], [1])), 0, 1)
    if op in ('add', 'addO'):
        return a + b
    if op == 'sub':
        return a - b
    if op in ('mul', 'mulO'):
        return a * b
    if op == 'matvec':
        return torch.tensordot(a, b, dims=(list(range(d, 2 * d)), list(range(d))))
    if op == 'rmatvec':
        return torch.tensordot(b, a, dims=(list(range(d)), list(range(d))))
    if op == 'tO':
        return a.permute(list(range(d, 2 * d)) + list(range(d)))
    if op == 'matmat':
        return torch.tensordot(a, b, dims=(list(range(d, 2 * d)), list(range(d))))
    raise KeyError(op)


def _G(shape, tag):
    return values.dense_tensor(list(shape), 'f64', 'gauss', 0, 'G' + tag)


def term_tt(term, kind, E, env):
    d = len(N)
    c, A0 = env['c'], env['A0']
    if term == 'full_lin':
        f = E.full()
        return (f * _G(f.shape, 'full')).sum()
    if term == 'sum':
        return E.sum()
    if term == 'norm':
        return E.norm()
    if term == 'norm2':
        return E.norm(True)
    if term == 'dot_c':
        return torchtt.dot(E, c)
    if term == 'dot_axis':
        r = torchtt.dot(E, env['c02'], [0, 2]).full()
        return (r * _G(r.shape, 'da')).sum()
    if term == 'bilinear':
        return torchtt.bilinear_form(E, A0, c)
    if term == 'getitem':
        r = (E[1, :, 0:1] if kind == 'T' else E[0, :, :, 1, :, :]).full()
        return (r * _G(r.shape, 'gi')).sum()
    if term == 'getitem_none':
        r = E[None, :, 1:, 1].full()
        return (r * _G(r.shape, 'gn')).sum()
    if term == 'apply_mask':
        r = E.apply_mask(torch.tensor([[0, 1, 1], [1, 2, 0], [1, 0, 1]]))
        return (r * _G(r.shape, 'am')).sum()
    if term == 'cat':
        r = torchtt.cat((E, c), 1).full()
        return (r * _G(r.shape, 'cat')).sum()
    if term == 'pad':
        r = (torchtt.pad(E, ((1, 0), (0, 2)), 0.5) if kind == 'T' else torchtt.pad(E, ((1, 0), (0, 1), (1, 1)), 0.5)).full()
        return (r * _G(r.shape, 'pad')).sum()
    if term == 'kron':
        r = (E ** (c if kind == 'T' else A0)).full()
        return (r * _G(r.shape, 'kron')).sum()
    if term == 'kron_r':
        r = ((c if kind == 'T' else A0) ** E).full()
        return (r * _G(r.shape, 'kronr')).sum()
    if term == 'kron_fn':
        r = torchtt.kron(E, c).full()
        return (r * _G(r.shape, 'kron')).sum()
    if term == 'kron_fn_r':
        r = torchtt.kron(c, E).full()
        return (r * _G(r.shape, 'kronr')).sum()
    if term == 'dot_c_r':
        return torchtt.dot(c, E)
    if term == 'bilinear_y':
        return torchtt.bilinear_form(c, A0, E)
    if term == 'cat_r':
        r = torchtt.cat((c, E), 1).full()
        return (r * _G(r.shape, 'cat')).sum()
    if term == 'sum_axes':
        r = E.sum([0, 2]).full()
        return (r * _G(r.shape, 'sa')).sum()
    if term == 'diag':
        r = torchtt.diag(E).full()
        return (r * _G(r.shape, 'dg')).sum()
    if term == 'mprod_list':
        r = E.mprod([env['W0'], env['W']], [0, 1]).full()
        return (r * _G(r.shape, 'ml')).sum()
    if term == 'matvec_c':
        r = (E @ c).full()
        return (r * _G(r.shape, 'mv')).sum()
    raise KeyError(term)


def term_dense(term, kind, E, env):
    d = len(N)
    c, A0 = env['c'], env['A0']
    if term == 'full_lin':
        return (E * _G(E.shape, 'full')).sum()
    if term == 'sum':
        return E.sum()
    if term == 'norm':
        return torch.sqrt((E * E).sum())
    if term == 'norm2':
        return (E * E).sum()
    if term == 'dot_c':
        return (E * c).sum()
    if term == 'dot_axis':
        r = torch.tensordot(E, env['c02'], dims=([0, 2], [0, 1]))
        return (r * _G(r.shape, 'da')).sum()
    if term == 'bilinear':
        Ay = torch.tensordot(A0, c, dims=(list(range(d, 2 * d)), list(range(d))))
        return (E * Ay).sum()
    if term == 'getitem':
        r = E[1, :, 0:1] if kind == 'T' else E[0, :, :, 1, :, :]
        return (r * _G(r.shape, 'gi')).sum()
    if term == 'getitem_none':
        r = E[None, :, 1:, 1]
        return (r * _G(r.shape, 'gn')).sum()
    if term == 'apply_mask':
        idx = torch.tensor([[0, 1, 1], [1, 2, 0], [1, 0, 1]])
        r = E[idx[:, 0], idx[:, 1], idx[:, 2]]
        return (r * _G(r.shape, 'am')).sum()
    if term == 'cat':
        r = torch.cat((E, c), 1)
        return (r * _G(r.shape, 'cat')).sum()
    if term == 'pad':
        if kind == 'T':
            r = F.pad(E, (0, 2, 1, 0), value=0.5)
            return (r * _G(r.shape, 'pad')).sum()
        # operator: compare only through the structure the statement fixes: use the library-independent block formula
        w = [(1, 0), (0, 1), (1, 1)]
        Mp = [n + b + a for n, (b, a) in zip(N, w)]
        r = torch.zeros(Mp + Mp, dtype=E.dtype)
        sl = tuple(slice(b, b + n) for n, (b, a) in zip(N, w))
        r[sl + sl] = E
        # corner blocks: value * identity (leading and trailing)
        lead = [b for (b, a) in w]
        trail = [a for (b, a) in w]
        for idx in itertools.product(*[range(b) for b in lead]):
            r[tuple(idx) + tuple(idx)] = 0.5
        for idx in itertools.product(*[range(a) for a in trail]):
            pos = tuple(b + n + i for (b, a), n, i in zip(w, N, idx))
            r[pos + pos] = 0.5
        G = _G(r.shape, 'pad')
        return (r * G).sum()
    if term == 'kron':
        other = c if kind == 'T' else A0
        r = torch.tensordot(E, other, dims=0)
        if kind == 'O':
            r = r.permute(list(range(d)) + list(range(2 * d, 3 * d)) + list(range(d, 2 * d)) + list(range(3 * d, 4 * d)))
        return (r * _G(r.shape, 'kron')).sum()
    if term in ('kron_r', 'kron_fn_r'):
        other = c if kind == 'T' else A0
        r = torch.tensordot(other, E, dims=0)
        if kind == 'O':
            r = r.permute(list(range(d)) + list(range(2 * d, 3 * d)) + list(range(d, 2 * d)) + list(range(3 * d, 4 * d)))
        return (r * _G(r.shape, 'kronr')).sum()
    if term == 'kron_fn':
        r = torch.tensordot(E, c, dims=0)
        return (r * _G(r.shape, 'kron')).sum()
    if term == 'dot_c_r':
        return (c * E).sum()
    if term == 'bilinear_y':
        Ay = torch.tensordot(A0, E, dims=(list(range(d, 2 * d)), list(range(d))))
        return (c * Ay).sum()
    if term == 'cat_r':
        r = torch.cat((c, E), 1)
        return (r * _G(r.shape, 'cat')).sum()
    if term == 'sum_axes':
        r = E.sum(dim=[0, 2]) if kind == 'T' else E.sum(dim=[0, 2, d, d + 2])
        return (r * _G(r.shape, 'sa')).sum()
    if term == 'diag':
        if kind == 'T':
            r = torch.zeros(list(E.shape) * 2, dtype=E.dtype)
            for idx in itertools.product(*[range(n) for n in E.shape]):
                r[idx + idx] = E[idx]
        else:
            r = torch.stack([E[idx + idx] for idx in itertools.product(*[range(n) for n in N])]).reshape(N)
        return (r * _G(r.shape, 'dg')).sum()
    if term == 'mprod_list':
        r = torch.movedim(torch.tensordot(env['W0'], E, dims=([1], [0])), 0, 0)
        r = torch.movedim(torch.tensordot(env['W'], r, dims=([1], [1])), 0, 1)
        return (r * _G(r.shape, 'ml')).sum()
    if term == 'matvec_c':
        r = torch.tensordot(E, c, dims=(list(range(d, 2 * d)), list(range(d))))
        return (r * _G(r.shape, 'mv')).sum()
    raise KeyError(term)


def _run_glist(c):
    key = 'glist|%s|%s|%s' % (c['prog'], c['order'], c['aio'])
    cx = [t * 0.7 for t in values.cores_for(space.tensor_struct(N, RX, 'f64', 'gauss'), 'x', 0)]
    cb = [t * 0.7 for t in values.cores_for(space.tensor_struct([N[0], N[2]], [1, 2, 1], 'f64', 'gauss'), 'b2', 0)]
    cA = [t * 0.7 for t in values.cores_for(space.operator_struct(N, N, RA, 'f64', 'gauss'), 'A', 0)]

    def value(mode, X, B, A_):
        if mode == 'tt':
            x, b, A = torchtt.TT(X), torchtt.TT(B), torchtt.TT(A_)
            if c['prog'] == 'kron_bx':
                r = (b ** (A @ x)).full()
            elif c['prog'] == 'kron_xb':
                r = torchtt.kron(A @ x, b).full()
            elif c['prog'] == 'dot_axis':
                r = torchtt.dot(A @ x, b, [0, 2]).full()
            else:
                r = (torchtt.cat((A @ x, A @ x), 1).sum([1]) * b).full()
            return (r * _G(r.shape, 'gl')).sum(), [x, b, A]
        x, b, A = dense_of(X), dense_of(B), dense_of(A_)
        d = len(N)
        Ax = torch.tensordot(A, x, dims=(list(range(d, 2 * d)), list(range(d))))
        if c['prog'] == 'kron_bx':
            r = torch.tensordot(b, Ax, dims=0)
        elif c['prog'] == 'kron_xb':
            r = torch.tensordot(Ax, b, dims=0)
        elif c['prog'] == 'dot_axis':
            r = torch.tensordot(Ax, b, dims=([0, 2], [0, 1]))
        else:
            r = torch.cat((Ax, Ax), 1).sum(dim=1) * b
        return (r * _G(r.shape, 'gl')).sum(), None
    site = 'grad_list.%s.%s' % (c['prog'], 'all_in_one' if c['aio'] else 'grouped')
    # dense reference
    Xd, Bd, Ad = [[t.clone().requires_grad_(True) for t in cs] for cs in (cx, cb, cA)]
    vd, _ = value('dense', Xd, Bd, Ad)
    vd.backward()
    ref_g = {'x': [t.grad for t in Xd], 'b': [t.grad for t in Bd], 'A': [t.grad for t in Ad]}
    # library
    Xt, Bt, At = [[t.clone() for t in cs] for cs in (cx, cb, cA)]
    try:
        vt, objs = value('tt', Xt, Bt, At)
    except Exception as ex:
        return Outcome(key, True, 'raises', violations=[V(site + '.raises_' + exc_name(ex), repr(ex)[:200])])
    x, b, A = objs
    tens = {'bx': [('b', b), ('x', x)], 'xb': [('x', x), ('b', b)], 'xbA': [('x', x), ('b', b), ('A', A)]}[c['order']]
    # watch has to happen before the graph is built: rebuild with watched objects
    Xt, Bt, At = [[t.clone() for t in cs] for cs in (cx, cb, cA)]
    x, b, A = torchtt.TT(Xt), torchtt.TT(Bt), torchtt.TT(At)
    tens = {'bx': [('b', b), ('x', x)], 'xb': [('x', x), ('b', b)], 'xbA': [('x', x), ('b', b), ('A', A)]}[c['order']]
    torchtt.grad.watch_list([t for _, t in tens])
    try:
        if c['prog'] == 'kron_bx':
            r = (b ** (A @ x)).full()
        elif c['prog'] == 'kron_xb':
            r = torchtt.kron(A @ x, b).full()
        elif c['prog'] == 'dot_axis':
            r = torchtt.dot(A @ x, b, [0, 2]).full()
        else:
            r = (torchtt.cat((A @ x, A @ x), 1).sum([1]) * b).full()
        val = (r * _G(r.shape, 'gl')).sum()
        gl = torchtt.grad.grad_list(val, [t for _, t in tens], all_in_one=c['aio'])
    except Exception as ex:
        return Outcome(key, True, 'raises', violations=[V(site + '.raises_' + exc_name(ex), repr(ex)[:200])])
    viol = []
    want_groups = [ref_g[n] for n, _ in tens]
    if c['aio']:
        want = [g for grp in want_groups for g in grp]
        got = gl
        if not isinstance(got, list) or len(got) != len(want):
            viol.append(V(site + '.length', 'returned %s entries, expected %d' % (len(got) if isinstance(got, list) else '?', len(want))))
        pairs = list(zip(got, want)) if not viol else []
    else:
        if not isinstance(gl, list) or len(gl) != len(want_groups) or any(not isinstance(g, list) or len(g) != len(w) for g, w in zip(gl, want_groups)):
            viol.append(V(site + '.grouping', 'group sizes %s, expected %s' % ([len(g) if isinstance(g, list) else '?' for g in gl] if isinstance(gl, list) else '?', [len(w) for w in want_groups])))
            pairs = []
        else:
            pairs = [(a, w) for g, grp in zip(gl, want_groups) for a, w in zip(g, grp)]
    gs = max([float(w.abs().max()) for grp in want_groups for w in grp if w is not None] + [1e-12])
    for a, w in pairs:
        w = torch.zeros_like(a) if (w is None and a is not None) else w
        if a is None or w is None or tuple(a.shape) != tuple(w.shape) or float((a - w).abs().max()) > 1e-9 * gs:
            viol.append(V(site + '.mismatch', 'a returned gradient does not match the dense one (shape %s vs %s)' % (getattr(a, 'shape', None), getattr(w, 'shape', None))))
            break
    return Outcome(key, True, 'glist', transitions=2, compared=1, violations=viol)


def run_case(c):
    if c.get('kind') == 'glist':
        return _run_glist(c)
    e = _tupleize(c['e'])
    term, kind = c['term'], c['kind']
    who, core = c['track']
    key = 'ad|%s|%s|%s%s' % (repr(e), term, c['track'], '|' + c['rk'] if c.get('rk') else '')
    rx_, ry_, ra_ = RANK1[c['rk']] if c.get('rk') else (RX, RY, RA)
    leaves = {'x': values.cores_for(space.tensor_struct(N, rx_, 'f64', 'gauss'), 'x', 0),
              'y': values.cores_for(space.tensor_struct(N, ry_, 'f64', 'gauss'), 'y', 0),
              'A': values.cores_for(space.operator_struct(N, N, ra_, 'f64', 'gauss'), 'A', 0)}
    for k in leaves:
        leaves[k] = [t * 0.7 for t in leaves[k]]
    cc, A0c, W, W0 = _consts()
    c02 = values.cores_for(space.tensor_struct([N[0], N[2]], [1, 2, 1], 'f64', 'gauss'), 'c02', 0)
    tracked = []       # (leaf name, core index)
    for name in ('x', 'y', 'A'):
        if who in (name, 'all'):
            for k in range(len(N)):
                if core is None or core == k:
                    tracked.append((name, k))
    nt = len(e) > 2 or True

    def build_env(mode, cores_by_leaf):
        env = {'W': W, 'W0': W0}
        if mode == 'tt':
            for name in ('x', 'y', 'A'):
                env[name] = torchtt.TT(cores_by_leaf[name])
            env['c'], env['A0'], env['c02'] = torchtt.TT([t.clone() for t in cc]), torchtt.TT([t.clone() for t in A0c]), torchtt.TT([t.clone() for t in c02])
        else:
            for name in ('x', 'y', 'A'):
                env[name] = dense_of(cores_by_leaf[name])
            env['c'], env['A0'], env['c02'] = dense_of(cc), dense_of(A0c), dense_of(c02)
        return env

    def value(mode, cores_by_leaf):
        env = build_env(mode, cores_by_leaf)
        if mode == 'tt':
            return term_tt(term, kind, ev_tt(e, env), env)
        return term_dense(term, kind, ev_dense(e, env), env)

    site = 'grad.%s.%s' % (term, e[0] if e[0] != 'leaf' else 'leaf')
    # ---- TT side
    ct = {k: [t.clone() for t in v] for k, v in leaves.items()}
    for (name, k) in tracked:
        ct[name][k].requires_grad_(True)
    v_tt, ex = call(value, 'tt', ct)
    if ex is not None:
        return Outcome(key, nt, 'raises:' + exc_name(ex), violations=[V(site + '.raises_' + exc_name(ex), repr(ex)[:300])])
    if not torch.is_tensor(v_tt) or v_tt.numel() != 1:
        return Outcome(key, nt, 'not scalar', violations=[V(site + '.not_scalar', str(type(v_tt)))])
    v_tt = v_tt.reshape([])
    viol = []
    if not v_tt.requires_grad:
        viol.append(V(site + '.result_not_differentiable', 'the value does not depend on the tracked cores in the autograd graph'))
        return Outcome(key, nt, 'nograd', violations=viol)
    g_tt, ex = call(torch.autograd.grad, v_tt, [ct[n][k] for n, k in tracked], allow_unused=True)
    if ex is not None:
        return Outcome(key, nt, 'backward raises', violations=[V(site + '.backward_raises_' + exc_name(ex), repr(ex)[:300])])
    # ---- dense side
    cd = {k: [t.clone() for t in v] for k, v in leaves.items()}
    for (name, k) in tracked:
        cd[name][k].requires_grad_(True)
    v_d = value('dense', cd).reshape([])
    g_d = torch.autograd.grad(v_d, [cd[n][k] for n, k in tracked], allow_unused=True)
    sc = abs(float(v_d)) + 1e-12
    if abs(float(v_tt) - float(v_d)) > 1e-10 * max(sc, 1.0):
        viol.append(V(site + '.value', 'TT %.12e dense %.12e' % (float(v_tt), float(v_d))))
    gs = max([float(g.abs().max()) for g in g_d if g is not None] + [1e-12])
    for (name, k), a, b in zip(tracked, g_tt, g_d):
        a = torch.zeros_like(ct[name][k]) if a is None else a
        b = torch.zeros_like(cd[name][k]) if b is None else b
        if tuple(a.shape) != tuple(ct[name][k].shape):
            viol.append(V(site + '.grad_shape', '%s core %d' % (name, k)))
            break
        if float((a - b).abs().max()) > 1e-9 * gs + 1e-12 * (1.0 + abs(float(v_d))):
            viol.append(V(site + '.grad_mismatch', '%s core %d: max diff %.3e (scale %.3e)' % (name, k, float((a - b).abs().max()), gs)))
            break
    # ---- finite difference along one fixed direction
    if not viol:
        h = 1e-6
        dirs = [values.dense_tensor(list(leaves[n][k].shape), 'f64', 'gauss', 0, 'dir%s%d' % (n, k)) for n, k in tracked]
        def shifted(s):
            cs = {k2: [t.clone() for t in v2] for k2, v2 in leaves.items()}
            for (n, k), dd in zip(tracked, dirs):
                cs[n][k] = cs[n][k] + s * h * dd
            return float(value('tt', cs))
        fd = (shifted(1.0) - shifted(-1.0)) / (2 * h)
        an = sum(float((torch.zeros_like(dd) if g is None else g).mul(dd).sum()) for g, dd in zip(g_tt, dirs))
        if abs(fd - an) > 1e-5 * max(abs(an), abs(fd), gs) + 1e-7 * (1.0 + abs(float(v_d))):
            viol.append(V(site + '.finite_difference', 'fd %.8e analytic %.8e' % (fd, an)))
    # ---- the grad API on a freshly watched object (whole-operand or single-core tracking of one operand)
    if not viol and who != 'all':
        ca = {k2: [t.clone() for t in v2] for k2, v2 in leaves.items()}
        env = build_env('tt', ca)
        obj = env[who]
        torchtt.grad.watch(obj, None if core is None else [core])
        val, ex = call(lambda: term_tt(term, kind, ev_tt(e, env), env))
        if ex is None:
            gl, ex = call(torchtt.grad.grad, val, obj, None if core is None else [core])
        if ex is not None:
            viol.append(V(site + '.grad_api_raises_' + exc_name(ex), repr(ex)[:300]))
        else:
            want = list(g_d)
            if not isinstance(gl, list) or len(gl) != len(want):
                viol.append(V(site + '.grad_api_shape', 'returned %s' % type(gl).__name__))
            else:
                for k, (a, b) in enumerate(zip(gl, want)):
                    tgt = cd[who][tracked[k][1]]
                    b = torch.zeros_like(tgt) if b is None else b
                    a = torch.zeros_like(tgt) if a is None else a
                    if tuple(a.shape) != tuple(tgt.shape) or float((a - b).abs().max()) > 1e-9 * gs + 1e-12 * (1.0 + abs(float(v_d))):
                        viol.append(V(site + '.grad_api_mismatch', 'core %d' % tracked[k][1]))
                        break
    return Outcome(key, nt, 'ok' if not viol else 'viol', transitions=4, compared=3, violations=viol)
