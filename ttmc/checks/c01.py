"""
C01 — TT-SVD meets the requested accuracy and rank bounds for every dense input.

E1 x E3: structures (order, mode sizes incl. 1s, tensor / operator shapes, torch / numpy source, shape argument form,
dtype, spectrum family) x the complete decision walk over eps (every rank-decision sequence any eps in (0,1) can produce,
plus the +-2 ulp neighbourhood of every breakpoint) x rmax in {inf, 1, 2, per-bond list}.
"""
import itertools
import math
import numpy as np
import torch
import torchtt
from .. import ref, space, values, decide
from ..core import Outcome
from ..lib import call, V, exc_name, TT

PROPERTY = 'C01'
CHUNK = 4
RULE = ('one case = one (dense input, constructor form, rmax); the case runs the full eps decision walk; states = distinct '
        '(input, rmax, rank-decision sequence); non-trivial = a decision sequence that truncated at least one bond')
ASSUMPTIONS = ['exact unfolding ranks are determined by the checker\'s own SVD and only used when the spectrum has a gap >= 1e6',
               'float32 inputs: walk starts at eps=1e-6']
FAMS = ['lowrank', 'lowrank_int', 'gauss', 'decay', 'decay_tiny', 'decay_huge', 'flat', 'flat2', 'saturating', 'zero']
CR = 1e3


def BOUNDS(tier):
    return {'max_order': 4 if tier == 'quick' else 6, 'operator_max_order': 2 if tier == 'quick' else 3, 'families': FAMS,
            'rmax': ['inf', 1, 2, 'per-bond list'], 'eps': 'complete decision walk over [1e-15,1), +-2 ulp at every breakpoint, plus eps=1e-10 default',
            'dtypes': ['f64', 'c128', 'f32', 'c64']}


def cases(tier, seed):
    D = 4 if tier == 'quick' else 6
    salt = seed % 5
    shapes = []
    for d in range(1, min(D, 3) + 1):
        shapes += space.sizes_full(d, (1, 2, 3))
    shapes += [[3, 4, 3, 4], [2, 3, 4, 5], [1, 3, 4, 2], [3, 1, 4, 2], [3, 4, 2, 1], [2, 2, 2, 2], [3, 1, 1, 4], [5, 2, 1, 3]]
    # tall unfoldings (rows >= 10 x columns): the SVD wrapper transposes these
    shapes += [[20, 2], [2, 20], [11, 1], [24, 1, 2], [30, 3], [2, 2, 12, 1]]
    if D >= 5:
        shapes += [[2, 3, 2, 3, 2], [3, 2, 1, 3, 2], [1, 2, 3, 2, 3], [2, 3, 2, 3, 1], [2, 2, 2, 2, 2, 2], [2, 3, 1, 2, 1, 3], [3, 2, 2, 2, 2, 3]]
        shapes += [[6, 5, 4], [8, 9], [4, 4, 4, 4], [7, 3, 5]]
    for N in shapes:
        d = len(N)
        for fam in FAMS:
            if fam in ('flat', 'flat2', 'saturating') and int(np.prod(N)) < 4:
                continue
            for dt in ('f64', 'c128', 'f32', 'c64'):
                if dt == 'c64' and fam not in ('lowrank', 'gauss', 'decay'):
                    continue
                if dt != 'f64' and (fam in ('lowrank_int', 'flat2', 'decay_huge') or (tier == 'quick' and d > 3 and max(N) < 10)):
                    continue
                for src, shp in (('torch', 'none'), ('numpy', 'none'), ('torch', 'list')):
                    if (src, shp) != ('torch', 'none') and fam not in ('lowrank', 'decay'):
                        continue         # numpy source and prescribed-shape form: two families, every dtype
                    for rmax in ('inf', 1, 2, 'list'):
                        if rmax != 'inf' and (d < 2 or dt in ('f32', 'c64')):
                            continue
                        yield {'k': 't', 'N': N, 'fam': fam, 'dt': dt, 'src': src, 'shp': shp, 'rmax': rmax, 's': salt}
    # operators
    DM = 2 if tier == 'quick' else 3
    mshapes = []
    for d in range(1, DM + 1):
        PM, PN = (2, 3, 2), (3, 2, 4)
        for mask in itertools.product((0, 1), repeat=2 * d):
            if sum(mask) > (2 if d < 3 else 1):
                continue
            mshapes.append(([1 if mask[i] else PM[i] for i in range(d)], [1 if mask[d + i] else PN[i] for i in range(d)]))
    mshapes += [([3, 3], [3, 3]), ([2, 2, 2], [2, 2, 2])][:DM - 1]
    for M, N in mshapes:
        for fam in FAMS:
            if fam in ('flat', 'flat2', 'saturating') and int(np.prod(M + N)) < 4:
                continue
            for dt in ('f64', 'c128', 'c64'):
                if dt == 'c64' and fam not in ('lowrank', 'decay'):
                    continue
                if dt != 'f64' and fam in ('lowrank_int', 'flat2'):
                    continue
                for src in ('torch', 'numpy'):
                    if src == 'numpy' and fam != 'lowrank':
                        continue
                    for rmax in ('inf', 1, 2):
                        if rmax != 'inf' and len(N) < 2:
                            continue
                        yield {'k': 'm', 'M': M, 'N': N, 'fam': fam, 'dt': dt, 'src': src, 'shp': 'tuples', 'rmax': rmax, 's': salt}


def unfolding_ranks(A):
    """exact ranks of the sequential unfoldings of a dense array (reference precision); None where no clean gap"""
    A = ref.up(A)
    shp = list(A.shape)
    out = []
    for k in range(1, len(shp)):
        m = int(np.prod(shp[:k]))
        Mx = A.reshape(m, -1)
        if Mx.numel() == 0:
            out.append(0)
            continue
        s = torch.linalg.svdvals(Mx)
        if float(s[0]) == 0.0:
            out.append(0)
            continue
        rel = (s / s[0]).tolist()
        r = sum(1 for x in rel if x > 1e-7)
        dirty = any(1e-13 < x <= 1e-7 for x in rel)
        out.append(None if dirty else r)
    return out


def _interleave(A, M, N):
    d = len(M)
    perm = [j for i in range(d) for j in (i, d + i)]
    return A.reshape(M + N).permute(perm).reshape([m * n for m, n in zip(M, N)])


def oracle(res, A, c, eps, rmaxl, uranks, site):
    """properties (i)-(v) of DESIGN §5 C01; A is the dense input (operand dtype)"""
    viol = []
    dtype = A.dtype
    u = ref.unit_roundoff(dtype)
    if not isinstance(res, TT):
        return [V(site + '.not_a_TT', type(res).__name__)]
    try:
        ittm, M, N, R = ref.structure_of(res.cores)
    except ValueError as e:
        return [V(site + '.malformed_cores', e)]
    wantM = c.get('M', []) if c['k'] == 'm' else []
    if (ittm, M, N) != (c['k'] == 'm', list(wantM), list(c['N'])):
        viol.append(V(site + '.shape', 'cores give ttm=%s M=%s N=%s; requested %s %s' % (ittm, M, N, wantM, c['N'])))
        return viol
    rep = (bool(res.is_ttm), list(res.M) if res.is_ttm else [], list(res.N), [int(r) for r in res.R])
    if rep != (ittm, M, N, R):
        viol.append(V(site + '.metadata_mismatch', 'reported %s, cores give %s' % (rep, (ittm, M, N, R))))
    shape_attr = [(m, n) for m, n in zip(M, N)] if ittm else list(N)
    if list(getattr(res, 'shape', [])) != shape_attr:
        viol.append(V(site + '.shape_attr', '%s vs %s' % (getattr(res, 'shape', None), shape_attr)))
    if any(cc.dtype != dtype for cc in res.cores):
        viol.append(V(site + '.dtype', str({cc.dtype for cc in res.cores})))
    # rank bounds
    for k in range(1, len(R) - 1):
        if R[k] > rmaxl[k]:
            viol.append(V(site + '.rank_exceeds_rmax', 'R=%s rmax=%s' % (R, rmaxl)))
            break
    floor = 1e-9 if u < 1e-10 else 1e-4
    if eps >= floor:
        for k in range(1, len(R) - 1):
            ur = uranks[k - 1]
            if ur is not None and R[k] > max(ur, 1):
                viol.append(V(site + '.rank_exceeds_unfolding_rank', 'R=%s unfolding ranks %s eps=%.3e' % (R, uranks, eps)))
                break
    binding = any(R[k] >= rmaxl[k] for k in range(1, len(R) - 1))
    if not binding:
        got = ref.contract(res.cores)
        want = ref.up(A).reshape(got.shape) if not ittm else ref.up(A).reshape(M + N)
        nA = float(torch.linalg.norm(want))
        err = float(torch.linalg.norm(got - want.to(got.dtype)))
        tol = eps * nA * (1 + 1e-9) + CR * u * nA
        if not (err <= tol):
            tie = ''
            viol.append(V(site + '.error_exceeds_eps', 'err/|A| = %.6e, eps = %.6e (R=%s)' % (err / max(nA, 1e-300), eps, R)))
    return viol


def run_case(c):
    dt = c['dt']
    d = len(c['N'])
    shape = c['N'] if c['k'] == 't' else c['M'] + c['N']
    if c['fam'] in ('decay_tiny', 'decay_huge'):
        # overall norm 1e-13 / 1e+13 (1e-6 / 1e+6 in single precision): every bound of the property is relative
        big = c['fam'] == 'decay_huge'
        f = (1e13 if big else 1e-13) if dt in ('f64', 'c128') else (1e6 if big else 1e-6)
        A = values.dense_family(shape, 'decay', dt, c['s']) * f
    else:
        A = values.dense_family(shape, c['fam'], dt, c['s'])
    if c['k'] == 'm':
        uranks = unfolding_ranks(_interleave(A, c['M'], c['N']))
    else:
        uranks = unfolding_ranks(A)
    if c['rmax'] == 'inf':
        rmax_arg, rmaxl = None, [1] + [10 ** 9] * (d - 1) + [1]
    elif c['rmax'] == 'list':
        rmaxl = [1] + [1 + (k % 2) for k in range(d - 1)] + [1]
        rmax_arg = list(rmaxl)
    else:
        rmax_arg, rmaxl = int(c['rmax']), [1] + [int(c['rmax'])] * (d - 1) + [1]
    if c['shp'] == 'none':
        shp_arg = None
        src = A
    elif c['shp'] == 'list':
        shp_arg = list(c['N'])
        src = A.reshape(-1) if d > 1 else A
    else:
        shp_arg = [(m, n) for m, n in zip(c['M'], c['N'])]
        src = A
    if c['src'] == 'numpy':
        src = src.numpy()
    site = 'ttsvd.' + ('operator' if c['k'] == 'm' else 'tensor')
    base_key = 'ttsvd|%s|%s|%s|%s|%s|%s|rmax=%s' % (c['k'], c.get('M'), c['N'], c['fam'], dt, c['src'] + c['shp'], c['rmax'])
    viol = {}
    keys = set()
    nontrivial = False

    def run(eps):
        def f():
            kw = {'eps': eps}
            if rmax_arg is not None:
                kw['rmax'] = rmax_arg
            if shp_arg is not None:
                return torchtt.TT(src.copy() if c['src'] == 'numpy' else src.clone(), shp_arg, **kw)
            return torchtt.TT(src.copy() if c['src'] == 'numpy' else src.clone(), **kw)
        v, e, log = decide.logged(f)
        seq = tuple(r for _, _, r in log) if e is None else ('raises', exc_name(e))
        return seq, log, (v, e)

    u = ref.unit_roundoff(ref.DT[dt])
    start = 1e-15 if u < 1e-10 else 1e-6
    runs = 0
    for eps, kind, seq, log, (v, e) in decide.walk(run, start=start, stop=1.0, extra=(1e-10, 0.5, 0.1)):
        runs += 1
        keys.add(base_key + '|' + str(seq))
        if e is not None:
            viol.setdefault(site + '.raises_' + exc_name(e), 'eps=%r: %r' % (eps, e))
            continue
        if isinstance(v, TT) and any(r < s.size for s, _, r in log):
            nontrivial = True
        for x in oracle(v, A, c, eps, rmaxl, uranks, site):
            cls = x['cls']
            if cls.endswith('error_exceeds_eps') and kind == 'breakpoint':
                cls += '.at_threshold_tie'
            viol.setdefault(cls, 'eps=%r (%s): %s' % (eps, kind, x['detail']))
    st = decide.walk.last_stats
    vl = [V(k, v) for k, v in viol.items()]
    return Outcome(sorted(keys), nontrivial, 'seqs=%d' % len(st['seqs']), transitions=runs, compared=runs, violations=vl,
                   extra={'walk_runs': st['runs'], 'walk_intervals': st['intervals'], 'walk_breakpoints': st['breakpoints'],
                          'exact_ties_hit': st['ties_hit'], 'cap_hit': st['cap_hit'], 'decision_sequences': len(st['seqs'])})
