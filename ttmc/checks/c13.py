"""
C13 — elementwise division inverts elementwise multiplication.

E1 x finite menus: (x, y = 1 + z*z) structures x forms (x/y, s/y, x/s, elementwise_divide with options) x seeds.
"""
import itertools
import numpy as np
import torch
import torchtt
from .. import ref, space, values
from ..core import Outcome
from ..lib import build, call, V, exc_name, TT

PROPERTY = 'C13'
CHUNK = 4
RULE = ('every (form, structure, ranks, solver options, seed) inside the bounds; distinct = that tuple; non-trivial = x or z '
        'with interior rank>1 and a mode>1')
ASSUMPTIONS = ['divisor y = 1 + z*z with z scaled to max|z| = 2, so y in [1,5]', 'acceptance |q*y-x| <= 100*eps*|x| + 1e4*u*|x| (operators / and rtruediv use eps 1e-12)',
               'finite seed menu']
PS = (3, 4, 2, 5, 3)


def BOUNDS(tier):
    return {'orders': [2, 3, 4] if tier == 'quick' else [2, 3, 4, 5], 'sizes': 'P=%s with singleton substitutions; up to 10 thorough' % (PS,),
            'x_ranks': [1, 2, 3], 'z_ranks': [1, 2], 'seeds': 2 if tier == 'quick' else 4,
            'scalars': 'positive and negative, python int / float, 0-d and 1-element tensors (f64, f32, i64)', 'forms': ['x/y', 's/y', 'x/s', 'elementwise_divide(eps in {1e-6,1e-10}, preconditioner in {None,c}, starting_tensor in {None, rank 2})']}


def cases(tier, seed):
    orders = [2, 3, 4] if tier == 'quick' else [2, 3, 4, 5]
    S = 2 if tier == 'quick' else 4
    # larger modes: the local systems exceed max_full = 500 unknowns, so the (preconditioned) iterative local solver runs
    for N in ([10, 10, 10], [8, 9, 10], [10, 10, 9, 8][:4]) if tier == 'quick' else ([10, 10, 10], [8, 9, 10], [10, 10, 9, 8], [10, 9, 10, 9, 8]):
        for rx, rz in ((3, 2), (4, 2), (2, 1)):
            for eps in (1e-6, 1e-10):
                for prec in (None, 'c'):
                    for st in ('none', 'rank2'):
                        if st == 'rank2' and eps == 1e-10:
                            continue
                        yield {'N': N, 'rx': rx, 'rz': rz, 'form': 'ediv', 'eps': eps, 'prec': prec, 'st': st, 'seed': 0}
            yield {'N': N, 'rx': rx, 'rz': rz, 'form': 'x/y', 'seed': 0}
    for d in orders:
        sizes = [list(PS[:d])]
        for pos in range(d):
            s = list(PS[:d])
            s[pos] = 1
            sizes.append(s)
        if d <= 3:
            sizes.append([6] * d)
            sizes.append([2] * d)
        if tier == 'thorough' and d <= 3:
            sizes.append([10, 7, 9][:d])
        for N in sizes:
            for rx in (1, 2, 3):
                for rz in (1, 2):
                    if d == 4 and tier == 'quick' and (rx, rz) not in ((1, 1), (2, 2), (3, 1)):
                        continue
                    base = {'N': N, 'rx': rx, 'rz': rz}
                    for sd in range(S):
                        yield dict(base, form='x/y', seed=sd)
                        if rx == 1:
                            yield dict(base, form='s/y', seed=sd, sk='float')
                    if rx == 1 and rz == 1:
                        for sk in ('int', 't0d', 't1e', 'neg', 'negint', 't0d_neg'):
                            yield dict(base, form='s/y', seed=0, sk=sk)
                    if rz == 1:
                        for sk in ('int', 'float', 't0d', 'third', 't0d_f32', 't0d_i64', 't1e_f32', 'inexact', 'neg'):
                            yield dict(base, form='x/s', seed=0, sk=sk)
                    for eps in (1e-6, 1e-10):
                        for prec in (None, 'c'):
                            for st in ('none', 'rank2'):
                                if d == 4 and tier == 'quick' and (prec == 'c' and st == 'rank2'):
                                    continue
                                yield dict(base, form='ediv', eps=eps, prec=prec, st=st, seed=0)
                    # the initial guess is one of the operands itself (a natural first guess for x / y is x)
                    for st in ('x', 'y'):
                        yield dict(base, form='ediv', eps=1e-8, prec=None, st=st, seed=0)
                    if rx == 1 and rz == 1:
                        # single precision operands
                        yield dict(base, form='x/y', seed=0, dt='f32')
                        for sk in ('float', 'int'):
                            yield dict(base, form='s/y', seed=0, sk=sk, dt='f32')
                    if rx == 1:
                        yield dict(base, form='ediv_scalar', eps=1e-8, prec=None, st='none', seed=0)


def _make_y(N, rz):
    d = len(N)
    sz = space.tensor_struct(N, [1] + [rz] * (d - 1) + [1], 'f64', 'gauss')
    cz = values.cores_for(sz, 'z', 0)
    zd = ref.contract(cz)
    cz[0] = cz[0] * (2.0 / max(float(zd.abs().max()), 1e-300))
    z = torchtt.TT([c.clone() for c in cz])
    zd = ref.contract(cz)
    y = z * z + 1.0
    return y, 1.0 + zd * zd, sz


def run_case(c):
    N, form = c['N'], c['form']
    d = len(N)
    key = 'div|' + '|'.join('%s=%s' % (k, c[k]) for k in sorted(c))
    sx = space.tensor_struct(N, [1] + [c['rx']] * (d - 1) + [1], 'f64', 'gauss')
    x, cx = build(sx, 'x', 0)
    xd = ref.contract(cx)
    y, yd, sz = _make_y(N, c['rz'])
    f32 = c.get('dt') == 'f32'
    if f32:
        x, y = x.to(dtype=torch.float32), y.to(dtype=torch.float32)
        xd, yd = ref.contract(x.cores), ref.contract(y.cores)
    nt = space.nontrivial(sx) or space.nontrivial(sz)
    u = 2.0 ** -53
    torch.manual_seed(c['seed'])
    np.random.seed(c['seed'])
    site = 'divide.' + form.replace('/', '_over_')
    if form == 'x/s':
        s, sv = {'int': (2, 2.0), 'float': (0.5, 0.5), 't0d': (torch.tensor(4.0, dtype=torch.float64), 4.0), 'third': (3.0, 3.0),
                 't0d_f32': (torch.tensor(3.0), 3.0), 't0d_i64': (torch.tensor(3), 3.0), 't1e_f32': (torch.tensor([1.7]), float(torch.tensor(1.7))),
                 'inexact': (0.3, 0.3), 'neg': (-0.5, -0.5)}[c['sk']]
        res, e = call(lambda: x / s)
        want = xd / sv
        if e is not None:
            return Outcome(key, nt, 'raises', violations=[V(site + '.raises_' + exc_name(e), repr(e))])
        viol = []
        if not isinstance(res, TT) or list(res.N) != N:
            viol.append(V(site + '.shape', str(getattr(res, 'N', type(res)))))
        else:
            got = ref.contract(res.cores)
            tol = 4 * u * float(ref.absbound(cx)) / abs(sv) * (0 if c['sk'] in ('int', 'float', 't0d', 'neg') else 1)
            if not ref.close(got, want, tol):
                viol.append(V(site + '.value', 'max diff %.3e tol %.3e' % (ref.maxdiff(got, want), tol)))
        return Outcome(key, nt, 'x/s', violations=viol)
    if form == 'x/y':
        f, eps, num = (lambda: x / y), 1e-12, xd
    elif form == 's/y':
        s, sv = {'float': (2.5, 2.5), 'int': (3, 3.0), 't0d': (torch.tensor(2.0, dtype=torch.float64), 2.0), 't1e': (torch.tensor([2.0], dtype=torch.float64), 2.0),
                 'neg': (-2.5, -2.5), 'negint': (-3, -3.0), 't0d_neg': (torch.tensor(-2.0, dtype=torch.float64), -2.0)}[c['sk']]
        f, eps, num = (lambda: s / y), 1e-12, torch.full_like(yd, sv)
    elif form == 'ediv':
        st = None
        if c['st'] == 'rank2':
            st = build(space.tensor_struct(N, [1] + [2] * (d - 1) + [1], 'f64', 'gauss'), 'st', 0)[0]
        elif c['st'] == 'x':
            st = x
        elif c['st'] == 'y':
            st = y
        eps, num = c['eps'], xd
        f = lambda: torchtt.elementwise_divide(x, y, eps=eps, starting_tensor=st, preconditioner=c['prec'])
        site += '.prec_%s.start_%s' % (c['prec'], c['st'])
    else:
        eps, num = c['eps'], torch.full_like(yd, 1.5)
        one = torchtt.ones(N) * 1.5
        f = lambda: torchtt.elementwise_divide(one, y, eps=eps)
    res, e = call(f)
    if e is not None:
        return Outcome(key, nt, 'raises:' + exc_name(e), violations=[V(site + '.raises_' + exc_name(e), repr(e))])
    viol = []
    if not isinstance(res, TT) or res.is_ttm or list(res.N) != N:
        return Outcome(key, nt, 'shape', violations=[V(site + '.shape', '%s N=%s' % (type(res).__name__, getattr(res, 'N', None)))])
    try:
        q = ref.contract(res.cores)
    except ValueError as ex:
        return Outcome(key, nt, 'malformed', violations=[V(site + '.malformed_cores', ex)])
    nn = float(torch.linalg.norm(num))
    rel = float(torch.linalg.norm(q * yd - num)) / max(nn, 1e-300)
    if f32:
        u = 2.0 ** -24
        site += '.float32'
    if not (rel <= 100 * eps + 1e4 * u):
        viol.append(V(site + '.residual_exceeds_100eps', '|q*y-x|/|x| = %.3e eps %.1e' % (rel, eps)))
    return Outcome(key, nt, 'rel/eps=1e%d' % int(np.floor(np.log10(max(rel / eps, 1e-30)))), violations=viol)
