"""
C20 — the TT linear layer computes the dense affine map it represents.

E1: in/out mode lists x rank profiles x batch ranks x dtype x initializer; forward value, parameter registration and
gradients compared with the dense affine map built from the layer's own cores by the checker's contraction.
"""
import itertools
import numpy as np
import torch
import torchtt
from .. import ref, space, values
from ..core import Outcome
from ..lib import call, V, exc_name

PROPERTY = 'C20'
CHUNK = 32
RULE = ('every (size_in, size_out, rank profile, batch rank, dtype, initializer) inside the bounds; distinct = that tuple; '
        'non-trivial = an interior rank>1 and some mode>1')
ASSUMPTIONS = ['the bias is overwritten with a deterministic non-zero tensor so that the addition is observable',
               'torch RNG seeded before construction (initial values are random by design)']
PIN = (3, 2, 4, 5)
POUT = (2, 5, 3, 4)
BATCH = (2, 3, 2)


def BOUNDS(tier):
    return {'max_modes': 3 if tier == 'quick' else 4, 'sizes': 'in_i in {1,%s}, out_i in {1,%s}' % (PIN, POUT),
            'ranks': '{1,2,3}', 'batch_ranks': '0..3', 'dtypes': ['f32', 'f64'], 'initializers': ['He', 'Glo']}


def cases(tier, seed):
    D = 3 if tier == 'quick' else 4
    for d in range(1, D + 1):
        for mask in itertools.product((0, 1), repeat=2 * d):
            if d >= 3 and sum(mask) > 2:
                continue
            sin = [1 if mask[i] else PIN[i] for i in range(d)]
            sout = [1 if mask[d + i] else POUT[i] for i in range(d)]
            rks = space.ranks_alphabet(d, (1, 2, 3)) if d <= 3 else space.ranks_dev(d, maxdev=1)
            for R in rks:
                for nb in range(0, 4):
                    for dt in ('f32', 'f64'):
                        for ini in ('He', 'Glo'):
                            yield {'in': sin, 'out': sout, 'R': R, 'nb': nb, 'dt': dt, 'ini': ini}


def _dense_W(cores):
    """differentiable contraction of 4-d cores (r, out, in, r') -> out1..outd, in1..ind"""
    res = cores[0]
    res = res.reshape(res.shape[1:])
    for c in cores[1:]:
        res = torch.tensordot(res, c, dims=([res.dim() - 1], [0]))
    res = res.reshape(res.shape[:-1])
    d = len(cores)
    return res.permute([2 * i for i in range(d)] + [2 * i + 1 for i in range(d)])


def run_case(c):
    sin, sout, R, nb, dt, ini = c['in'], c['out'], c['R'], c['nb'], c['dt'], c['ini']
    d = len(sin)
    dtype = ref.DT[dt]
    key = 'layer|%s|%s|%s|nb%d|%s|%s' % (sin, sout, R, nb, dt, ini)
    nt = any(r > 1 for r in R[1:-1]) and any(n > 1 for n in sin + sout)
    torch.manual_seed(1234)
    layer, e = call(torchtt.nn.LinearLayerTT, list(sin), list(sout), list(R), dtype=dtype, initializer=ini)
    if e is not None:
        return Outcome(key, nt, 'ctor raises', violations=[V('layer.ctor.raises_' + exc_name(e), repr(e))])
    viol = []
    params = dict(layer.named_parameters())
    cores = list(layer.cores)
    if len(cores) != d or len(params) != d + 1 or 'bias' not in params:
        viol.append(V('layer.parameters.count', 'named_parameters: %s' % sorted(params)))
        return Outcome(key, nt, 'params', violations=viol)
    if not all(p.requires_grad for p in params.values()):
        viol.append(V('layer.parameters.requires_grad', ''))
    if any(p.dtype != dtype for p in params.values()):
        viol.append(V('layer.parameters.dtype', str({k: v.dtype for k, v in params.items()})))
    shapes = [tuple(cc.shape) for cc in cores]
    want_shapes = [(R[i], sout[i], sin[i], R[i + 1]) for i in range(d)]
    if shapes != want_shapes or tuple(layer.bias.shape) != tuple(sout):
        viol.append(V('layer.parameters.shape', 'cores %s bias %s' % (shapes, tuple(layer.bias.shape))))
        return Outcome(key, nt, 'shapes', violations=viol)
    with torch.no_grad():
        layer.bias.copy_(values.dense_tensor(sout, dt, 'gauss', 0, 'bias'))
    x = values.dense_tensor(list(BATCH[:nb]) + sin, dt, 'gauss', 0, 'x')
    y, e = call(layer, x)
    if e is not None:
        return Outcome(key, nt, 'forward raises', violations=viol + [V('layer.forward.raises_' + exc_name(e), repr(e))])
    # dense model in float64 from the layer's own parameters
    pc = [cc.detach().to(torch.float64).clone().requires_grad_(True) for cc in cores]
    pb = layer.bias.detach().to(torch.float64).clone().requires_grad_(True)
    Wd = _dense_W(pc)
    xd = x.to(torch.float64)
    yd = torch.tensordot(xd, Wd, dims=(list(range(nb, nb + d)), list(range(d, 2 * d)))) + pb
    u = ref.unit_roundoff(dtype)
    scale = float(yd.detach().abs().max()) + float(torch.tensordot(xd.abs(), _dense_W([p.detach().abs() for p in pc]), dims=(list(range(nb, nb + d)), list(range(d, 2 * d)))).max())
    if tuple(y.shape) != tuple(yd.shape):
        viol.append(V('layer.forward.shape', 'output %s, dense map %s (batch rank %d)' % (list(y.shape), list(yd.shape), nb)))
        return Outcome(key, nt, 'shape', violations=viol)
    if y.dtype != dtype:
        viol.append(V('layer.forward.dtype', str(y.dtype)))
    if not ref.close(y.detach().to(torch.float64), yd.detach(), 1e3 * u * scale):
        viol.append(V('layer.forward.value', 'max diff %.3e (tol %.3e)' % (ref.maxdiff(y.detach().to(torch.float64), yd.detach()), 1e3 * u * scale)))
    # gradients of a fixed linear functional of the output
    G = values.dense_tensor(list(yd.shape), 'f64', 'gauss', 0, 'G')
    (yd * G).sum().backward()
    layer.zero_grad()
    _, e = call(lambda: (y * G.to(dtype)).sum().backward())
    if e is not None:
        viol.append(V('layer.backward.raises_' + exc_name(e), repr(e)))
        return Outcome(key, nt, 'backward raises', violations=viol)
    for name, p, q in [('core%d' % i, cores[i], pc[i]) for i in range(d)] + [('bias', layer.bias, pb)]:
        if p.grad is None:
            viol.append(V('layer.grad.missing', name))
            continue
        gs = float(q.grad.abs().max()) + 1e-300
        gtol = 1e4 * u * max(gs, scale * float(G.abs().max()))
        if tuple(p.grad.shape) != tuple(q.grad.shape) or not ref.close(p.grad.to(torch.float64), q.grad, gtol):
            viol.append(V('layer.grad.value', '%s: max diff %.3e tol %.3e' % (name, ref.maxdiff(p.grad.to(torch.float64), q.grad), gtol)))
            break
    return Outcome(key, nt, 'ok', transitions=3, violations=viol)
