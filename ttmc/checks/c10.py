"""
C10 — reshape, permute and QTT conversion preserve the tensor up to the given eps.

E1 x E3: ALL ordered factorisation pairs (with inserted singleton modes) of a few element counts, ALL permutations, all
power-of-mode-size QTT shapes; values compared with the dense reshape / permute; loose eps explored by the decision walk.
"""
import itertools
import math
import numpy as np
import torch
import torchtt
from .. import ref, space, values, decide
from ..core import Outcome
from ..lib import build, call, V, exc_name, TT, check_tt

PROPERTY = 'C10'
CHUNK = 64
RULE = ('reshape: every ordered (input shape, target shape) pair of the enumerated factorisations; permute: every permutation; '
        'QTT: every power shape; loose eps by the complete decision walk; distinct = (op, shapes, ranks, dtype, decision sequence); '
        'non-trivial = an input with interior rank>1')
ASSUMPTIONS = ['error budget C*eps with C=5 for reshape and permute, C=2*(number of split cores)+2 for to_qtt (DESIGN §5 C10)']
CR = 1e4


def BOUNDS(tier):
    return {'reshape_counts': [4, 6, 8, 12] if tier == 'quick' else [4, 6, 8, 12, 16, 24, 36], 'max_order': 5 if tier == 'quick' else 6,
            'singleton_insertions': '0..2 for counts <= 8 (<= 16 thorough), else 0..1', 'permute_max_order': 4 if tier == 'quick' else 6,
            'qtt_modes': '{1,2,4,8} (16 thorough), mode_size 2 and 3', 'eps': ['default', 1e-10, 'decision walk on [1e-8,0.3)'],
            'dtypes': ['f64', 'c128']}


def _shapes(count, max_ones, maxlen):
    out, seen = [], set()
    for f in space.ordered_factorisations(count, maxlen=maxlen):
        for s in space.with_ones(f, max_ones, maxlen):
            if tuple(s) not in seen:
                seen.add(tuple(s))
                out.append(s)
    return out


def _minimal_ranks(N, cap):
    d = len(N)
    return [1] + [min(cap, int(np.prod(N[:k + 1])), int(np.prod(N[k + 1:]))) for k in range(d - 1)] + [1]


def cases(tier, seed):
    salt = seed % 5
    quick = tier == 'quick'
    counts = [4, 6, 8, 12] if quick else [4, 6, 8, 12, 16, 24, 36]
    maxlen = 5 if quick else 6
    for cnt in counts:
        shp = _shapes(cnt, 2 if (cnt <= 8 or not quick) and cnt <= 16 else 1, maxlen)
        for Nin in shp:
            for Nout in shp:
                for cap in (2, 3):
                    R = _minimal_ranks(Nin, cap)
                    if cap == 3 and R == _minimal_ranks(Nin, 2):
                        continue
                    for dt in ('f64', 'c128'):
                        if dt == 'c128' and cap == 3:
                            continue
                        for eps in ('default', 1e-10):
                            if eps == 1e-10 and (dt == 'c128' or cap == 3):
                                continue
                            yield {'op': 'reshape', 'Nin': Nin, 'Nout': Nout, 'R': R, 'dt': dt, 'eps': eps, 's': salt}
        # loose eps: decision walk on a thinner set (decaying values)
        thin = shp[::3]
        for Nin in thin:
            for Nout in thin:
                yield {'op': 'reshape_walk', 'Nin': Nin, 'Nout': Nout, 'R': _minimal_ranks(Nin, 3), 'dt': 'f64', 's': salt}
        for Nin in thin[::2]:
            for Nout in thin[::2]:
                for sc in (1e-3, 1e3):
                    yield {'op': 'reshape_walk', 'Nin': Nin, 'Nout': Nout, 'R': _minimal_ranks(Nin, 3), 'dt': 'f64', 's': salt, 'scale': sc}
    # operators: pairs of (M,N) factorisation pairs
    ocounts = [4, 6] if quick else [4, 6, 8, 12]
    for cm in ocounts:
        for cn in ocounts:
            fm = [f for f in space.ordered_factorisations(cm, maxlen=3)]
            fn = [f for f in space.ordered_factorisations(cn, maxlen=3)]
            pairs = []
            for a in fm:
                for b in fn:
                    L = max(len(a), len(b))
                    # align by padding with ones at the end / front
                    for padfront in (False, True):
                        A = ([1] * (L - len(a)) + a) if padfront else (a + [1] * (L - len(a)))
                        B = ([1] * (L - len(b)) + b) if padfront else (b + [1] * (L - len(b)))
                        if (A, B) not in pairs:
                            pairs.append((A, B))
                        # a mode pair (1,1) in front / at the end / in the middle
                        if L <= 2:
                            for pos in range(L + 1):
                                A1, B1 = A[:pos] + [1] + A[pos:], B[:pos] + [1] + B[pos:]
                                if (A1, B1) not in pairs:
                                    pairs.append((A1, B1))
            for (Min, Nin) in pairs:
                for (Mout, Nout) in pairs:
                    for dt in ('f64', 'c128'):
                        yield {'op': 'reshape_ttm', 'Min': Min, 'Nin': Nin, 'Mout': Mout, 'Nout': Nout, 'dt': dt, 's': salt}
    # permute
    DP = 4 if quick else 6
    PS = (2, 3, 4, 2, 3, 2)
    for d in range(1, DP + 1):
        sizes = [list(PS[:d])]
        for pos in range(d):
            s = list(PS[:d])
            s[pos] = 1
            sizes.append(s)
        for N in sizes:
            for perm in itertools.permutations(range(d)):
                for cap in (2, 3):
                    R = _minimal_ranks(N, cap)
                    if cap == 3 and (R == _minimal_ranks(N, 2) or d > 5):
                        continue
                    for dt in ('f64', 'c128'):
                        if dt == 'c128' and (cap == 3 or d > 5):
                            continue
                        yield {'op': 'permute', 'N': N, 'perm': list(perm), 'R': R, 'dt': dt, 'eps': 'default', 's': salt}
                if d <= 4 or (d == 5 and N == sizes[0]):
                    yield {'op': 'permute_walk', 'N': N, 'perm': list(perm), 'R': _minimal_ranks(N, 3), 'dt': 'f64', 's': salt}
                    if d <= 4 and N == sizes[0]:
                        for sc in (1e-3, 1e3):
                            yield {'op': 'permute_walk', 'N': N, 'perm': list(perm), 'R': _minimal_ranks(N, 3), 'dt': 'f64', 's': salt, 'scale': sc}
    for d in range(1, 4 if quick else 5):
        PM, PN = (2, 3, 2, 2), (3, 2, 2, 3)
        for perm in itertools.permutations(range(d)):
            for dt in ('f64', 'c128'):
                yield {'op': 'permute_ttm', 'M': list(PM[:d]), 'N': list(PN[:d]), 'perm': list(perm), 'dt': dt, 's': salt}
    # tight eps on operands with spectrum content far below 1e-10 (a + 1e-11 * b): roundoff only is promised at the default eps
    for cnt in (8, 12) if quick else (8, 12, 16, 24):
        shp = _shapes(cnt, 0, 4)
        for Nin in shp:
            if len(Nin) < 2:
                continue
            for Nout in shp:
                for eps in ('default', 1e-14):
                    yield {'op': 'reshape_tail', 'Nin': Nin, 'Nout': Nout, 'eps': eps, 'dt': 'f64', 's': salt}
    for N in ([2, 3, 4], [3, 2, 2, 3]):
        for perm in itertools.permutations(range(len(N))):
            yield {'op': 'permute_tail', 'N': N, 'perm': list(perm), 'dt': 'f64', 's': salt}
    # qtt_to_tens with every contiguous regrouping of the QTT modes (singleton cores inside, at the start or end of a group)
    for N in ([4, 1, 8], [1, 4, 2], [2, 4, 1], [4, 1, 1, 4], [8, 2], [1, 8]) + (() if quick else ([2, 1, 4, 1, 2], [16, 1, 4])):
        yield {'op': 'qtt_regroup', 'N': list(N), 'R': _minimal_ranks(list(N), 2), 'dt': 'f64', 's': salt}
    # QTT
    modes = (1, 2, 4, 8) if quick else (1, 2, 4, 8, 16)
    for d in range(1, 4):
        for N in itertools.product(modes, repeat=d):
            if int(np.prod(N)) > 512:
                continue
            for cap in (2, 3):
                R = _minimal_ranks(list(N), cap)
                if cap == 3 and R == _minimal_ranks(list(N), 2):
                    continue
                for dt in ('f64', 'c128'):
                    if dt == 'c128' and cap == 3:
                        continue
                    yield {'op': 'qtt', 'N': list(N), 'R': R, 'dt': dt, 'ms': 2, 's': salt}
    for N in ([3], [9], [27], [3, 9], [9, 3, 9], [27, 9], [1, 9], [81], [243]):
        yield {'op': 'qtt', 'N': N, 'R': _minimal_ranks(N, 2), 'dt': 'f64', 'ms': 3, 's': salt}
    for d in range(1, 3 if quick else 4):
        for N in itertools.product((2, 4, 8) if quick else (1, 2, 4, 8), repeat=d):
            if int(np.prod(N)) > 64 or int(np.prod(N)) == 1:
                continue          # a 1 x 1 operator has no QTT modes at all (nothing to return)
            for dt in ('f64', 'c128'):
                yield {'op': 'qtt_ttm', 'N': list(N), 'R': _minimal_ranks(list(N), 2), 'dt': dt, 's': salt}


def _value_check(res, want, site, eps, C, nX, u, viol, tag=''):
    got = ref.contract(res.cores)
    if tuple(got.shape) != tuple(want.shape):
        viol.append(V(site + '.shape', 'result %s requested %s' % (list(got.shape), list(want.shape))))
        return
    err = float(torch.linalg.norm(got - want.to(got.dtype)))
    tol = C * eps * nX + CR * u * nX
    if not (err <= tol):
        viol.append(V(site + '.value' + tag, 'err/|x| = %.3e, eps = %.3e (C=%g)' % (err / max(nX, 1e-300), eps, C)))


def _meta_check(res, site, ttm, M, N, viol):
    if not isinstance(res, TT):
        viol.append(V(site + '.not_a_TT', type(res).__name__))
        return False
    try:
        ittm, M2, N2, R2 = ref.structure_of(res.cores)
    except ValueError as e:
        viol.append(V(site + '.malformed_cores', e))
        return False
    if (ittm, M2, N2) != (ttm, list(M), list(N)):
        viol.append(V(site + '.mode_sizes', 'result ttm=%s M=%s N=%s, requested M=%s N=%s' % (ittm, M2, N2, M, N)))
        return False
    rep = (bool(res.is_ttm), list(res.M) if res.is_ttm else [], list(res.N), [int(r) for r in res.R])
    if rep != (ittm, M2, N2, R2):
        viol.append(V(site + '.metadata_mismatch', 'reported %s, cores give %s' % (rep, (ittm, M2, N2, R2))))
    return True


def run_case(c):
    op, dt = c['op'], c['dt']
    dtype = ref.DT[dt]
    u = ref.unit_roundoff(dtype)
    return globals()['_' + op](c, dtype, u)


def _reshape(c, dtype, u):
    Nin, Nout, R, dt = c['Nin'], c['Nout'], c['R'], c['dt']
    st = space.tensor_struct(Nin, R, dt, 'gauss')
    x, cx = build(st, 'a', c['s'])
    X = ref.contract(cx)
    nX = float(torch.linalg.norm(X))
    key = 'reshape|%s|%s|%s|%s' % (space.skey(st), Nout, c['eps'], dt)
    trail = 0
    for n in reversed(Nin):
        if n == 1:
            trail += 1
        else:
            break
    site = 'reshape.tensor'
    eps = 1e-16 if c['eps'] == 'default' else c['eps']
    res, e = call((lambda: torchtt.reshape(x, list(Nout))) if c['eps'] == 'default' else (lambda: torchtt.reshape(x, list(Nout), eps)))
    if e is not None:
        return Outcome(key, space.nontrivial(st), 'raises', violations=[V(site + '.raises_' + exc_name(e), repr(e))])
    viol = []
    if _meta_check(res, site, False, [], Nout, viol):
        tag = ''
        _value_check(res, X.reshape(Nout), site, eps, 5, nX, u, viol)
        if viol and viol[-1]['cls'].endswith('.value'):
            # symptom classification: equal up to a global unimodular factor?
            got = ref.contract(res.cores).reshape(-1)
            w = X.reshape(-1).to(got.dtype)
            ph = torch.vdot(w, got) / max(float(torch.vdot(w, w).real), 1e-300)
            if abs(abs(complex(ph)) - 1) < 1e-9 and float(torch.linalg.norm(got - ph * w)) <= 1e-9 * nX:
                viol[-1] = V(site + '.value.global_phase_lost' + ('.trailing_singleton_input' if trail else ''), 'result = (%.3f%+.3fj) * x' % (complex(ph).real, complex(ph).imag))
    return Outcome(key, space.nontrivial(st), 'R=%s' % (res.R if isinstance(res, TT) else '?'), violations=viol)


def _walk_generic(c, x, X, want, site, fn, C, Nout_meta, key0):
    nX = float(torch.linalg.norm(X))
    u = ref.unit_roundoff(X.dtype)
    viol = {}
    keys = set()
    nontrivial = False

    def run(eps):
        v, e, log = decide.logged(lambda: fn(eps))
        seq = tuple(r for _, _, r in log) if e is None else ('raises', exc_name(e))
        return seq, log, (v, e)
    runs = 0
    for eps, kind, seq, log, (v, e) in decide.walk(run, start=1e-8, stop=0.3, max_runs=600):
        runs += 1
        keys.add(key0 + '|' + str(seq))
        if e is not None:
            viol.setdefault(site + '.raises_' + exc_name(e), 'eps=%r: %r' % (eps, e))
            continue
        if any(r < s.size for s, _, r in log):
            nontrivial = True
        vv = []
        if _meta_check(v, site, Nout_meta[0], Nout_meta[1], Nout_meta[2], vv):
            _value_check(v, want, site, eps, C, nX, u, vv, '.loose_eps')
        for t in vv:
            viol.setdefault(t['cls'], 'eps=%r (%s): %s' % (eps, kind, t['detail']))
    st = decide.walk.last_stats
    return Outcome(sorted(keys), nontrivial, 'seqs=%d' % len(st['seqs']), transitions=runs, compared=runs,
                   violations=[V(k, v) for k, v in viol.items()],
                   extra={'walk_runs': st['runs'], 'walk_breakpoints': st['breakpoints'], 'exact_ties_hit': st['ties_hit'], 'cap_hit': st['cap_hit']})


def _scaled(x, c):
    """operands whose norm is far from 1 (an absolute instead of a relative truncation threshold shows)"""
    sc = c.get('scale')
    if not sc:
        return x
    cores = [cc.clone() for cc in x.cores]
    cores[0] = cores[0] * sc
    return torchtt.TT(cores)


def _decay_tt(N, R, dt, salt):
    """TT with decaying unfolding spectra: TT-SVD of the 'decay' dense family, then padded to ranks R by the library is not
    needed - the TT-SVD output already has the ranks the spectrum supports"""
    A = values.dense_family(N, 'decay', dt, salt)
    return torchtt.TT(A, eps=1e-14), A


def _reshape_walk(c, dtype, u):
    Nin, Nout = c['Nin'], c['Nout']
    if len(Nin) == 1:
        x, _ = build(space.tensor_struct(Nin, [1, 1], c['dt'], 'gauss'), 'a', c['s'])
    else:
        x, _ = _decay_tt(Nin, c['R'], c['dt'], c['s'])
    x = _scaled(x, c)
    X = ref.contract(x.cores)
    key0 = 'reshape_walk|%s|%s|%s' % (Nin, Nout, c.get('scale'))
    return _walk_generic(c, x, X, X.reshape(Nout), 'reshape.tensor', lambda eps: torchtt.reshape(x, list(Nout), eps), 5, (False, [], Nout), key0)


def _reshape_ttm(c, dtype, u):
    Min, Nin, Mout, Nout, dt = c['Min'], c['Nin'], c['Mout'], c['Nout'], c['dt']
    d = len(Nin)
    R = [1] + [2] * (d - 1) + [1]
    st = space.operator_struct(Min, Nin, R, dt, 'gauss')
    A, cA = build(st, 'A', c['s'])
    X = ref.contract(cA)
    nX = float(torch.linalg.norm(X))
    key = 'reshape_ttm|%s|%s|%s' % (space.skey(st), Mout, Nout)
    site = 'reshape.operator'
    res, e = call(lambda: torchtt.reshape(A, [(m, n) for m, n in zip(Mout, Nout)]))
    if e is not None:
        return Outcome(key, space.nontrivial(st), 'raises', violations=[V(site + '.raises_' + exc_name(e), repr(e))])
    viol = []
    if _meta_check(res, site, True, Mout, Nout, viol):
        _value_check(res, X.reshape(Mout + Nout), site, 1e-16, 5, nX, u, viol)
    return Outcome(key, space.nontrivial(st), 'R=%s' % (res.R if isinstance(res, TT) else '?'), violations=viol)


def _permute(c, dtype, u):
    N, perm, R, dt = c['N'], c['perm'], c['R'], c['dt']
    st = space.tensor_struct(N, R, dt, 'gauss')
    x, cx = build(st, 'a', c['s'])
    X = ref.contract(cx)
    nX = float(torch.linalg.norm(X))
    key = 'permute|%s|%s' % (space.skey(st), perm)
    site = 'permute.tensor'
    res, e = call(lambda: torchtt.permute(x, list(perm)))
    if e is not None:
        return Outcome(key, space.nontrivial(st), 'raises', violations=[V(site + '.raises_' + exc_name(e), repr(e))])
    viol = []
    if _meta_check(res, site, False, [], [N[i] for i in perm], viol):
        _value_check(res, X.permute(perm), site, 1e-12, 5, nX, u, viol)
    return Outcome(key, space.nontrivial(st), 'R=%s' % (res.R if isinstance(res, TT) else '?'), violations=viol)


def _permute_walk(c, dtype, u):
    N, perm = c['N'], c['perm']
    if len(N) == 1:
        x, _ = build(space.tensor_struct(N, [1, 1], c['dt'], 'gauss'), 'a', c['s'])
    else:
        x, _ = _decay_tt(N, c['R'], c['dt'], c['s'])
    x = _scaled(x, c)
    X = ref.contract(x.cores)
    key0 = 'permute_walk|%s|%s|%s' % (N, perm, c.get('scale'))
    return _walk_generic(c, x, X, X.permute(perm), 'permute.tensor', lambda eps: torchtt.permute(x, list(perm), eps), 5,
                         (False, [], [N[i] for i in perm]), key0)


def _tail_tt(N, dt, salt):
    d = len(N)
    a, _ = build(space.tensor_struct(N, _minimal_ranks(N, 2), dt, 'gauss'), 'a', salt)
    b, _ = build(space.tensor_struct(N, _minimal_ranks(N, 2), dt, 'gauss'), 'b', salt)
    nb = float(b.norm())
    na = float(a.norm())
    return a + b * (1e-11 * na / max(nb, 1e-300))


def _reshape_tail(c, dtype, u):
    Nin, Nout = c['Nin'], c['Nout']
    x = _tail_tt(Nin, c['dt'], c['s'])
    X = ref.contract(x.cores)
    nX = float(torch.linalg.norm(X))
    key = 'reshape_tail|%s|%s|%s' % (Nin, Nout, c['eps'])
    site = 'reshape.tensor.tight_eps'
    eps = 1e-16 if c['eps'] == 'default' else c['eps']
    res, e = call((lambda: torchtt.reshape(x, list(Nout))) if c['eps'] == 'default' else (lambda: torchtt.reshape(x, list(Nout), eps)))
    if e is not None:
        return Outcome(key, True, 'raises', violations=[V(site + '.raises_' + exc_name(e), repr(e))])
    viol = []
    if _meta_check(res, site, False, [], Nout, viol):
        got = ref.contract(res.cores)
        err = float(torch.linalg.norm(got - X.reshape(Nout)))
        tol = 5 * eps * nX + 1e3 * u * nX
        if not (err <= tol):
            viol.append(V(site + '.value', 'err/|x| = %.3e at eps %.1e: spectrum content below 1e-10 was dropped' % (err / nX, eps)))
    return Outcome(key, True, 'R=%s' % (res.R if isinstance(res, TT) else '?'), violations=viol)


def _permute_tail(c, dtype, u):
    N, perm = c['N'], c['perm']
    x = _tail_tt(N, c['dt'], c['s'])
    X = ref.contract(x.cores)
    nX = float(torch.linalg.norm(X))
    key = 'permute_tail|%s|%s' % (N, perm)
    site = 'permute.tensor.tight_eps'
    eps = 1e-14
    res, e = call(lambda: torchtt.permute(x, list(perm), eps))
    if e is not None:
        return Outcome(key, True, 'raises', violations=[V(site + '.raises_' + exc_name(e), repr(e))])
    viol = []
    if _meta_check(res, site, False, [], [N[i] for i in perm], viol):
        got = ref.contract(res.cores)
        err = float(torch.linalg.norm(got - X.permute(perm)))
        if not (err <= 5 * eps * nX + 1e3 * u * nX):
            viol.append(V(site + '.value', 'err/|x| = %.3e at eps %.1e' % (err / nX, eps)))
    return Outcome(key, True, 'R=%s' % (res.R if isinstance(res, TT) else '?'), violations=viol)


def _qtt_regroup(c, dtype, u):
    N, R = c['N'], c['R']
    st = space.tensor_struct(N, R, c['dt'], 'gauss')
    x, cx = build(st, 'a', c['s'])
    # make every singleton core carry a non-trivial factor, so that dropping one changes sign and scale
    cores = [cc.clone() for cc in x.cores]
    for k, n in enumerate(N):
        if n == 1:
            cores[k] = cores[k] * (-2.5)
    x = torchtt.TT(cores)
    X = ref.contract(x.cores)
    nX = float(torch.linalg.norm(X))
    q, e = call(x.to_qtt)
    key0 = 'qtt_regroup|%s' % space.skey(st)
    if e is not None:
        return Outcome(key0, True, 'raises', violations=[V('to_qtt.tensor.raises_' + exc_name(e), repr(e))])
    modes = list(q.N)
    L = len(modes)
    viol = {}
    keys = []
    n = 0
    for cuts in itertools.product((0, 1), repeat=L - 1):
        groups, cur = [], [modes[0]]
        for m, cut in zip(modes[1:], cuts):
            if cut:
                groups.append(cur)
                cur = [m]
            else:
                cur.append(m)
        groups.append(cur)
        target = [int(np.prod(g)) for g in groups]
        n += 1
        keys.append(key0 + '|' + str(target))
        back, e = call(q.qtt_to_tens, list(target))
        site = 'qtt_to_tens.regroup'
        if e is not None:
            viol.setdefault(site + '.raises_' + exc_name(e), 'QTT modes %s -> %s: %r' % (modes, target, e))
            continue
        vv = []
        if _meta_check(back, site, False, [], target, vv):
            _value_check(back, X.reshape(target), site, 1e-12, 6, nX, u, vv)
        for t in vv:
            viol.setdefault(t['cls'], 'QTT modes %s -> %s: %s' % (modes, target, t['detail']))
    return Outcome(keys, True, 'groupings=%d' % n, transitions=n + 1, compared=n, violations=[V(k, v) for k, v in viol.items()])


def _permute_ttm(c, dtype, u):
    M, N, perm, dt = c['M'], c['N'], c['perm'], c['dt']
    d = len(N)
    st = space.operator_struct(M, N, [1] + [2] * (d - 1) + [1], dt, 'gauss')
    A, cA = build(st, 'A', c['s'])
    X = ref.contract(cA)
    nX = float(torch.linalg.norm(X))
    key = 'permute_ttm|%s|%s' % (space.skey(st), perm)
    site = 'permute.operator'
    res, e = call(lambda: torchtt.permute(A, list(perm)))
    if e is not None:
        return Outcome(key, space.nontrivial(st), 'raises', violations=[V(site + '.raises_' + exc_name(e), repr(e))])
    viol = []
    if _meta_check(res, site, True, [M[i] for i in perm], [N[i] for i in perm], viol):
        _value_check(res, X.permute(list(perm) + [d + i for i in perm]), site, 1e-12, 5, nX, u, viol)
    return Outcome(key, space.nontrivial(st), 'R=%s' % (res.R if isinstance(res, TT) else '?'), violations=viol)


def _qtt(c, dtype, u):
    N, R, dt, ms = c['N'], c['R'], c['dt'], c['ms']
    st = space.tensor_struct(N, R, dt, 'gauss')
    x, cx = build(st, 'a', c['s'])
    X = ref.contract(cx)
    nX = float(torch.linalg.norm(X))
    key = 'qtt|%s|ms%d' % (space.skey(st), ms)
    site = 'to_qtt.tensor'
    Nq = []
    nsplit = 0
    for n in N:
        k = 0
        m = n
        while m > 1 and m % ms == 0:
            m //= ms
            k += 1
        Nq += [ms] * k if k > 0 else [n]
        nsplit += 1 if k > 1 else 0
    res, e = call(lambda: x.to_qtt(mode_size=ms) if ms != 2 else x.to_qtt())
    if e is not None:
        return Outcome(key, space.nontrivial(st), 'raises', violations=[V(site + '.raises_' + exc_name(e), repr(e))])
    viol = []
    if _meta_check(res, site, False, [], Nq, viol):
        _value_check(res, X.reshape(Nq), site, 1e-12, 2 * nsplit + 2, nX, u, viol)
        back, e = call(res.qtt_to_tens, list(N))
        if e is not None:
            viol.append(V('qtt_to_tens.raises_' + exc_name(e), repr(e)))
        elif _meta_check(back, 'qtt_to_tens', False, [], N, viol):
            _value_check(back, X, 'qtt_to_tens', 1e-12, 2 * nsplit + 2, nX, u, viol)
    return Outcome(key, space.nontrivial(st), 'Nq=%s' % Nq, transitions=2, compared=2, violations=viol)


def _qtt_ttm(c, dtype, u):
    N, R, dt = c['N'], c['R'], c['dt']
    st = space.operator_struct(N, N, R, dt, 'gauss')
    A, cA = build(st, 'A', c['s'])
    X = ref.contract(cA)
    nX = float(torch.linalg.norm(X))
    key = 'qtt_ttm|%s' % space.skey(st)
    site = 'to_qtt.operator'
    Nq = []
    for n in N:
        Nq += [2] * int(round(math.log2(n)))
    res, e = call(A.to_qtt)
    if e is not None:
        return Outcome(key, space.nontrivial(st), 'raises', violations=[V(site + '.raises_' + exc_name(e), repr(e))])
    viol = []
    if len(Nq) == 0:
        return Outcome(key + '|skip', False, 'skipped: all modes 1', transitions=1, compared=0)
    if _meta_check(res, site, True, Nq, Nq, viol):
        _value_check(res, X.reshape(Nq + Nq), site, 1e-12, 5, nX, u, viol)
    return Outcome(key, space.nontrivial(st), 'Nq=%s' % Nq, violations=viol)


# ------------------------------------------------------------------------------------------------ second tier: histories
# every history of depth 2 (3 thorough) whose last event belongs to this property, on the explicit-state explorer; the last
# event is compared with its dense definition on the operands as they are in that state (ttmc/history_tier.py)
from .. import history_tier as _ht

_cases_e1, _run_case_e1 = cases, run_case


def cases(tier, seed):
    yield from _cases_e1(tier, seed)
    yield from _ht.cases(PROPERTY, tier)


def run_case(c):
    if c.get('g') in ('E2', 'E2R'):
        return _ht.run_case(PROPERTY, c)
    return _run_case_e1(c)
