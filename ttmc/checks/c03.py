"""
C03 — TT-tensor arithmetic equals dense arithmetic entry for entry.

E1: complete enumeration of operand-pair structures (orders, mode-size patterns with singleton modes, rank
profiles, all broadcast alignments, scalar kinds, dtypes) x operations; lock-step with the dense model; bit
equality on small-integer cores.
"""
import itertools
import numpy as np
import torch
import torchtt
from .. import ref, space, values
from ..core import Outcome
from ..lib import build, call, check_tt, V, exc_name, TT, snapshot, snapshot_diff

PROPERTY = 'C03'
CHUNK = 128
RULE = ('every (operation, operand structure pair) inside the bounds is executed once on the real library and '
        'compared with the dense model; distinct = distinct canonical (group, op, structures, dtype) key; '
        'non-trivial = some operand has an interior rank > 1 and a mode size > 1')
ASSUMPTIONS = ['first-operand broadcasting (undocumented) is only required to raise or to agree with torch broadcasting',
               'foreign scalar types on the LEFT (numpy scalar, torch tensor) dispatch through their own operators; '
               'only a returned TT with a wrong value is a violation there']

DTF = [('f64', 'int'), ('f64', 'gauss'), ('c128', 'int'), ('f32', 'int1')]


def BOUNDS(tier):
    return {'max_order_same_shape': 4 if tier == 'quick' else 5, 'max_order_broadcast': 4 if tier == 'quick' else 5,
            'size_alphabets': 'distinct {1,p_i}, p=(2,3,4,5,6,7); full {1,2,3}^d for d<=3; uniform n^d (n=2,3; d=4,5) with uniform ranks', 'rank_alphabet': '{1,q_k}, q=(2,3,2,3,..)',
            'dtypes': DTF}


def _sizes(d):
    out = space.sizes_distinct(d)
    if d <= 3:
        seen = {tuple(s) for s in out}
        out += [s for s in space.sizes_full(d) if tuple(s) not in seen]
    return out


def cases(tier, seed):
    D = 4 if tier == 'quick' else 5
    salt = seed % 7
    # ---- A: same-shape TT o TT
    for d in range(1, D + 1):
        ra = space.ranks_binary(d) if d <= 4 else space.ranks_dev(d, maxdev=2)
        rb = space.ranks_binary(d, offset=1) if d <= 4 else space.ranks_dev(d, offset=1, maxdev=2)
        for N in _sizes(d):
            for Ra in ra:
                for Rb in rb:
                    for op in '+-*':
                        for dt, fam in DTF:
                            yield {'g': 'A', 'op': op, 'N': N, 'Ra': Ra, 'Rb': Rb, 'dt': dt, 'fam': fam, 's': salt}
    # ---- A': uniform structures (all modes equal, all interior ranks equal, possibly equal for both operands): all interior cores
    # of an operand - and of the result - have ONE shape, which the distinct-size / alternating-rank alphabets never produce
    for d in (4, 5):
        for n in (2, 3):
            for r in (1, 2, 3):
                for q in (2, 3):
                    for op in '+-*':
                        for dt, fam in DTF[:2]:
                            yield {'g': 'A', 'op': op, 'N': [n] * d, 'Ra': [1] + [r] * (d - 1) + [1], 'Rb': [1] + [q] * (d - 1) + [1], 'dt': dt, 'fam': fam, 's': salt}
    # ---- B: second operand broadcast to the first (documented rule); C: first operand would have to expand
    for da in range(1, D + 1):
        sa = [s for s in space.sizes_distinct(da) if da <= 3 or s.count(1) <= 1]
        for Na in sa:
            for db in range(1, da + 1):
                tail = Na[da - db:]
                for mask in itertools.product((0, 1), repeat=db):
                    Nb = [1 if m else n for m, n in zip(mask, tail)]
                    if db == da and Nb == Na:
                        continue
                    for Ra in space.ranks_dev(da, maxdev=1):
                        for Rb in space.ranks_dev(db, offset=1, maxdev=1):
                            for op in '+-*':
                                for dt, fam in (DTF if da <= 3 else DTF[:1] + DTF[2:3]):
                                    yield {'g': 'B', 'op': op, 'N': Na, 'Nb': Nb, 'Ra': Ra, 'Rb': Rb, 'dt': dt, 'fam': fam, 's': salt}
    for da in range(1, 4):
        for Na in space.sizes_distinct(da):
            cand = []
            for db in range(1, da + 2):
                for Nb in space.sizes_distinct(db, offset=max(da - db, 0)):
                    cand.append(Nb)
            for Nb in cand:
                # keep the pairs in which the FIRST operand would have to expand under torch rules, or that torch rejects
                kind = _bcast_kind(Na, Nb)
                if kind in ('first_expands', 'invalid'):
                    for op in '+-*':
                        yield {'g': 'C', 'op': op, 'N': Na, 'Nb': Nb, 'Ra': space.ranks_dev(da, maxdev=0)[0],
                               'Rb': space.ranks_dev(len(Nb), offset=1, maxdev=0)[0], 'dt': 'f64', 'fam': 'int', 's': salt, 'kind': kind}
    # ---- D: scalars
    for d in range(1, D + 1):
        for N in space.sizes_distinct(d):
            if d > 2 and N.count(1) > 1:
                continue
            for R in space.ranks_dev(d, maxdev=1):
                for dt, fam in DTF:
                    for sk in SCALARS:
                        if sk == 'complex' and dt != 'c128':
                            continue
                        for form in ('x+s', 'x-s', 'x*s', 's+x', 's-x', 's*x', 'x/s'):
                            if form == 'x/s' and sk == 'complex':
                                continue   # __truediv__ documents float | int | torch.tensor only
                            yield {'g': 'D', 'form': form, 'sk': sk, 'N': N, 'R': R, 'dt': dt, 'fam': fam, 's': salt}
    # ---- E: unary, kron, full
    for d in range(1, D + 1):
        for N in _sizes(d):
            for R in space.ranks_binary(d) if d <= 4 else space.ranks_dev(d, maxdev=2):
                for dt, fam in DTF:
                    for op in ('neg', 'pos', 'pow_none', 'rpow_none', 'kron_none_l', 'kron_none_r', 'full'):
                        yield {'g': 'E', 'op': op, 'N': N, 'R': R, 'dt': dt, 'fam': fam, 's': salt}
    for d1 in range(1, 4):
        for d2 in range(1, 4):
            for N1 in space.sizes_distinct(d1):
                for N2 in space.sizes_distinct(d2, offset=d1):
                    for R1 in space.ranks_dev(d1, maxdev=1):
                        for R2 in space.ranks_dev(d2, offset=1, maxdev=1):
                            for dt, fam in DTF[:3:2]:
                                for op in ('pow', 'kron'):
                                    yield {'g': 'K', 'op': op, 'N': N1, 'Nb': N2, 'Ra': R1, 'Rb': R2, 'dt': dt, 'fam': fam, 's': salt}
    # ---- F: factories
    for d in range(1, 5):
        for N in space.sizes_full(d):
            for dt in ('f64', 'c128', 'f32'):
                for fac in ('ones', 'zeros', 'eye', 'rank1', 'meshgrid'):
                    yield {'g': 'F', 'fac': fac, 'N': N, 'dt': dt, 'k': 't'}
                if d >= 2 and len(set(N)) < d:
                    # the SAME tensor object passed for several axes of equal size
                    yield {'g': 'F', 'fac': 'meshgrid_alias', 'N': N, 'dt': dt, 'k': 't'}
    for d in range(1, 4):
        for M in space.sizes_full(d):
            for N in space.sizes_distinct(d):
                for dt in ('f64', 'f32'):
                    for fac in ('ones', 'zeros', 'rank1'):
                        yield {'g': 'F', 'fac': fac, 'N': N, 'M': M, 'dt': dt, 'k': 'm'}


SCALARS = ['int', 'float', 'inexact', 'negfloat', 'npfloat', 't0d', 't1e', 't0d_f32', 't0d_i64', 'zero_int', 'zero_float', 'complex']


def _scalar(sk, dtype):
    if sk == 'int':
        return 2, 2.0
    if sk == 'float':
        return 0.5, 0.5
    if sk == 'inexact':
        return 0.1, 0.1          # not representable in float32: a scalar routed through single precision shows
    if sk == 'negfloat':
        return -4.0, -4.0
    if sk == 'npfloat':
        return np.float64(1.5), 1.5
    if sk == 't0d':
        return torch.tensor(2.0, dtype=dtype), 2.0
    if sk == 't1e':
        return torch.tensor([-2.0], dtype=dtype), -2.0
    if sk == 't0d_f32':
        return torch.tensor(3.0), 3.0            # a float32 0-d tensor whatever the operand dtype
    if sk == 't0d_i64':
        return torch.tensor(3), 3.0              # an int64 0-d tensor
    if sk == 'zero_int':
        return 0, 0.0
    if sk == 'zero_float':
        return 0.0, 0.0
    if sk == 'complex':
        return 1 + 2j, 1 + 2j
    raise KeyError(sk)


def _bcast_kind(Na, Nb):
    """classification under torch broadcasting: 'same', 'second_expands' (documented), 'first_expands', 'invalid'"""
    da, db = len(Na), len(Nb)
    first = db > da
    for i in range(1, min(da, db) + 1):
        a, b = Na[-i], Nb[-i]
        if a == b:
            continue
        if b == 1:
            continue
        if a == 1:
            first = True
            continue
        return 'invalid'
    if first:
        return 'first_expands'
    return 'same' if list(Na) == list(Nb) else 'second_expands'


def _dense_op(op, a, b):
    return a + b if op == '+' else (a - b if op == '-' else a * b)


def _lib_op(op, a, b):
    return a + b if op == '+' else (a - b if op == '-' else a * b)


def run_case(c):
    g = c['g']
    if g in 'ABC':
        return _binary(c)
    if g == 'D':
        return _scalar_case(c)
    if g == 'E':
        return _unary(c)
    if g == 'K':
        return _kron(c)
    return _factory(c)


def _binary(c):
    op, dt, fam = c['op'], c['dt'], c['fam']
    Na, Nb = c['N'], c.get('Nb', c['N'])
    sa = space.tensor_struct(Na, c['Ra'], dt, fam)
    sb = space.tensor_struct(Nb, c['Rb'], dt, fam)
    a, ca = build(sa, 'a', c['s'])
    b, cb = build(sb, 'b', c['s'])
    da, db_ = ref.contract(ca), ref.contract(cb)
    key = 'bin%s|%s|%s|%s' % (c['g'], op, space.skey(sa), space.skey(sb))
    nt = space.nontrivial(sa) or space.nontrivial(sb)
    site = {'+': 'add', '-': 'sub', '*': 'mul'}[op] + {'A': '.tt_tt', 'B': '.broadcast', 'C': '.first_expands'}[c['g']]
    snaps = (snapshot(a), snapshot(b))
    res, e = call(_lib_op, op, a, b)
    for o, sn, nm in ((a, snaps[0], 'first'), (b, snaps[1], 'second')):
        dmsg = snapshot_diff(o, sn)
        if dmsg:
            return Outcome(key, nt, 'operand changed', violations=[V(site + '.%s_operand_changed' % nm, dmsg)])
    if c['g'] == 'C':
        if e is not None:
            return Outcome(key, nt, 'raises:' + exc_name(e))
        try:
            want = _dense_op(op, da, db_)
        except RuntimeError:
            return Outcome(key, nt, 'returned', violations=[V(site + '.invalid_pair_returned', 'torch rejects %s o %s but a %s came back' % (Na, Nb, type(res).__name__))])
        ba, bb = ref.absbound(ca), ref.absbound(cb)
        bound = ba * bb if op == '*' else ba + bb
        return Outcome(key, nt, 'returned', violations=check_tt(res, want, site, None, fam.startswith('int'), bound, ttm=False))
    if e is not None:
        return Outcome(key, nt, 'raises:' + exc_name(e), violations=[V(site + '.raises_' + exc_name(e), repr(e))])
    want = _dense_op(op, da, db_)
    ba, bb = ref.absbound(ca), ref.absbound(cb)
    bound = ba * bb if op == '*' else ba + bb
    viol = check_tt(res, want, site, ref.DT[dt], fam.startswith('int'), bound, ttm=False)
    # documented rank structure
    if isinstance(res, TT) and not viol:
        Rr = [int(r) for r in res.R]
        Ra = c['Ra']
        Rb = [1] * (len(Na) - len(Nb)) + c['Rb']
        if c['g'] == 'A':
            law = [x + y for x, y in zip(Ra, Rb)] if op in '+-' else [x * y for x, y in zip(Ra, Rb)]
            law[0] = law[-1] = 1
            if Rr != law:
                viol.append(V(site + '.rank_law', 'ranks %s, documented %s' % (Rr, law)))
        else:
            ub = [x + y for x, y in zip(Ra, Rb)] if op in '+-' else [x * y for x, y in zip(Ra, Rb)]
            if any(r > u for r, u in zip(Rr[1:-1], ub[1:-1])):
                viol.append(V(site + '.rank_bound', 'ranks %s exceed %s' % (Rr, ub)))
    return Outcome(key, nt, 'R=%s' % (res.R if isinstance(res, TT) else '?'), violations=viol)


def _scalar_case(c):
    dt, fam, form, sk = c['dt'], c['fam'], c['form'], c['sk']
    st = space.tensor_struct(c['N'], c['R'], dt, fam)
    x, cx = build(st, 'a', c['s'])
    dx = ref.contract(cx)
    s, sv = _scalar(sk, ref.DT[dt])
    key = 'sc|%s|%s|%s' % (form, sk, space.skey(st))
    nt = space.nontrivial(st)
    site = 'scalar.' + form.replace('+', 'add').replace('-', 'sub').replace('*', 'mul').replace('/', 'div') + '.' + sk
    left_foreign = form.startswith('s') and sk in ('npfloat', 't0d', 't1e', 't0d_f32', 't0d_i64')
    if form == 'x/s' and sv == 0:
        return Outcome(key + '|skip', False, 'skipped:division by zero', transitions=0, compared=0)
    fn = {'x+s': lambda: x + s, 'x-s': lambda: x - s, 'x*s': lambda: x * s, 's+x': lambda: s + x,
          's-x': lambda: s - x, 's*x': lambda: s * x, 'x/s': lambda: x / s}[form]
    want = {'x+s': lambda: dx + sv, 'x-s': lambda: dx - sv, 'x*s': lambda: dx * sv, 's+x': lambda: sv + dx,
            's-x': lambda: sv - dx, 's*x': lambda: sv * dx, 'x/s': lambda: dx / sv}[form]()
    snap = snapshot(x)
    res, e = call(fn)
    dmsg = snapshot_diff(x, snap)
    if dmsg:
        return Outcome(key, nt, 'operand changed', violations=[V(site + '.operand_changed', dmsg)])
    if e is not None:
        if left_foreign:
            return Outcome(key, nt, 'foreign-left raises:' + exc_name(e))
        return Outcome(key, nt, 'raises:' + exc_name(e), violations=[V(site + '.raises_' + exc_name(e), repr(e))])
    if left_foreign and not isinstance(res, TT):
        return Outcome(key, nt, 'foreign-left returned ' + type(res).__name__)
    bound = ref.absbound(cx) * max(abs(sv), 1.0) + abs(sv)
    exact = (fam.startswith('int') and form != 'x/s' or (form == 'x/s' and fam.startswith('int') and sv in (2.0, 0.5, -4.0, -2.0))) and sk != 'inexact'
    if sk in ('t0d_f32', 't0d_i64') and dt == 'c128':
        dt_note = 'complex operand with a real tensor scalar'
    dtype = None if sk == 'complex' else ref.DT[dt]
    viol = check_tt(res, want, site, dtype, exact, bound, ttm=False, dtype_ref=ref.DT[dt])
    if isinstance(res, TT) and not viol:
        Rr, R = [int(r) for r in res.R], c['R']
        ub = [r + 1 for r in R] if form[1] in '+-' else R
        if any(r > u for r, u in zip(Rr[1:-1], ub[1:-1])):
            viol.append(V(site + '.rank_bound', 'ranks %s exceed %s' % (Rr, ub)))
    return Outcome(key, nt, 'R=%s' % (res.R if isinstance(res, TT) else '?'), violations=viol)


def _unary(c):
    dt, fam, op = c['dt'], c['fam'], c['op']
    st = space.tensor_struct(c['N'], c['R'], dt, fam)
    x, cx = build(st, 'a', c['s'])
    dx = ref.contract(cx)
    key = 'un|%s|%s' % (op, space.skey(st))
    nt = space.nontrivial(st)
    if op == 'full':
        f, e = call(x.full)
        if e is not None:
            return Outcome(key, nt, 'raises', violations=[V('full.raises_' + exc_name(e), repr(e))])
        viol = []
        if f.dtype != ref.DT[dt]:
            viol.append(V('full.dtype', '%s expected %s' % (f.dtype, dt)))
        if tuple(f.shape) != tuple(dx.shape):
            viol.append(V('full.shape' + ('.all_modes_singleton' if all(n == 1 for n in c['N']) and len(c['N']) == 1 else ''),
                          'full() shape %s, modes %s' % (list(f.shape), c['N'])))
        else:
            bound = ref.absbound(cx)
            ok = torch.equal(ref.up(f), dx) if (fam.startswith('int') and bound < 2 ** 23) else ref.close(ref.up(f), dx, 1e3 * ref.unit_roundoff(ref.DT[dt]) * bound)
            if not ok:
                viol.append(V('full.value', 'max diff %.3e' % ref.maxdiff(ref.up(f), dx)))
        return Outcome(key, nt, 'full', violations=viol)
    fn = {'neg': lambda: -x, 'pos': lambda: +x, 'pow_none': lambda: x ** None, 'rpow_none': lambda: None ** x, 'kron_none_l': lambda: torchtt.kron(None, x),
          'kron_none_r': lambda: torchtt.kron(x, None)}[op]
    want = -dx if op == 'neg' else dx
    res, e = call(fn)
    if e is not None:
        return Outcome(key, nt, 'raises', violations=[V(op + '.raises_' + exc_name(e), repr(e))])
    viol = check_tt(res, want, op, ref.DT[dt], True, ref.absbound(cx), ttm=False, full_exact=fam.startswith('int'))
    if isinstance(res, TT) and not viol and [int(r) for r in res.R] != c['R']:
        viol.append(V(op + '.rank_law', 'ranks %s, operand %s' % (res.R, c['R'])))
    return Outcome(key, nt, 'R=%s' % (res.R if isinstance(res, TT) else '?'), violations=viol)


def _kron(c):
    dt, fam, op = c['dt'], c['fam'], c['op']
    sa = space.tensor_struct(c['N'], c['Ra'], dt, fam)
    sb = space.tensor_struct(c['Nb'], c['Rb'], dt, fam)
    a, ca = build(sa, 'a', c['s'])
    b, cb = build(sb, 'b', c['s'])
    da, db_ = ref.contract(ca), ref.contract(cb)
    key = 'kron|%s|%s|%s' % (op, space.skey(sa), space.skey(sb))
    nt = space.nontrivial(sa) or space.nontrivial(sb)
    res, e = call((lambda: a ** b) if op == 'pow' else (lambda: torchtt.kron(a, b)))
    if e is not None:
        return Outcome(key, nt, 'raises', violations=[V('kron.raises_' + exc_name(e), repr(e))])
    want = torch.tensordot(da, db_, dims=0)
    viol = check_tt(res, want, 'kron', ref.DT[dt], fam.startswith('int'), ref.absbound(ca) * ref.absbound(cb), ttm=False)
    if isinstance(res, TT) and not viol and [int(r) for r in res.R] != c['Ra'] + c['Rb'][1:]:
        viol.append(V('kron.rank_law', 'ranks %s, documented %s' % (res.R, c['Ra'] + c['Rb'][1:])))
    return Outcome(key, nt, 'R=%s' % (res.R if isinstance(res, TT) else '?'), violations=viol)


def _factory(c):
    fac, dt, N = c['fac'], c['dt'], c['N']
    dtype = ref.DT[dt]
    key = 'fac|%s|%s|%s|%s' % (fac, c['k'], N, c.get('M')) + dt
    nt = any(n > 1 for n in N)
    viol = []
    if c['k'] == 'm':
        M = c['M']
        shape = [(m, n) for m, n in zip(M, N)]
        if fac in ('ones', 'zeros'):
            res, e = call(getattr(torchtt, fac), shape, dtype=dtype)
            want = (torch.ones if fac == 'ones' else torch.zeros)(M + N, dtype=torch.float64)
        else:
            mats = [values.dense_tensor([m, n], dt, 'int', 0, 'r%d' % i) for i, (m, n) in enumerate(shape)]
            res, e = call(torchtt.rank1TT, [m.clone() for m in mats])
            want = torch.ones([], dtype=ref.up(mats[0]).dtype)
            for m in mats:
                want = torch.tensordot(want, ref.up(m), dims=0)
            d = len(M)
            want = want.permute([2 * i for i in range(d)] + [2 * i + 1 for i in range(d)])
        if e is not None:
            return Outcome(key, nt, 'raises', violations=[V('factory.%s.raises_%s' % (fac, exc_name(e)), repr(e))])
        viol = check_tt(res, want, 'factory.' + fac + '.operator', dtype, True, 2.0 ** (2 * len(N)), ttm=True)
        return Outcome(key, nt, fac, violations=viol)
    if fac in ('ones', 'zeros'):
        res, e = call(getattr(torchtt, fac), list(N), dtype=dtype)
        want = (torch.ones if fac == 'ones' else torch.zeros)(N, dtype=torch.float64)
        if e is None:
            viol = check_tt(res, want, 'factory.' + fac, dtype, True, 1.0, ttm=False)
    elif fac == 'eye':
        res, e = call(torchtt.eye, list(N), dtype=dtype)
        n = int(np.prod(N))
        want = torch.eye(n, dtype=torch.float64).reshape(list(N) + list(N))
        if e is None:
            viol = check_tt(res, want, 'factory.eye', dtype, True, 1.0, ttm=True)
    elif fac == 'rank1':
        vecs = [values.dense_tensor([n], dt, 'int', 0, 'v%d' % i) for i, n in enumerate(N)]
        res, e = call(torchtt.rank1TT, [v.clone() for v in vecs])
        want = torch.ones([], dtype=ref.up(vecs[0]).dtype)
        for v in vecs:
            want = torch.tensordot(want, ref.up(v), dims=0)
        if e is None:
            viol = check_tt(res, want, 'factory.rank1', dtype, True, 2.0 ** (2 * len(N)), ttm=False)
    else:  # meshgrid
        fac = 'meshgrid'
        if c['fac'] == 'meshgrid_alias':
            bysize = {}
            vecs = [bysize.setdefault(n, values.dense_tensor([n], dt, 'int', 0, 'v%d' % n)) for n in N]     # aliased objects
            res, e = call(torchtt.meshgrid, list(vecs))
        else:
            vecs = [values.dense_tensor([n], dt, 'int', 0, 'v%d' % i) for i, n in enumerate(N)]
            res, e = call(torchtt.meshgrid, [v.clone() for v in vecs])
        if e is None:
            wants = torch.meshgrid(*[ref.up(v) for v in vecs], indexing='ij')
            if not isinstance(res, list) or len(res) != len(N):
                viol.append(V('factory.meshgrid.count', 'returned %r' % (type(res),)))
            else:
                for k, (r, w) in enumerate(zip(res, wants)):
                    viol += check_tt(r, w, 'factory.meshgrid', dtype, True, 4.0, ttm=False)
    if e is not None:
        return Outcome(key, nt, 'raises', violations=[V('factory.%s.raises_%s' % (fac, exc_name(e)), repr(e))])
    return Outcome(key, nt, fac, violations=viol)


# ------------------------------------------------------------------------------------------------ second tier: histories
# every history of depth 2 (3 thorough) whose last event belongs to this property, on the explicit-state explorer; the last
# event is compared with its dense definition on the operands as they are in that state (ttmc/history_tier.py)
from .. import history_tier as _ht

_cases_e1, _run_case_e1 = cases, run_case


def cases(tier, seed):
    yield from _cases_e1(tier, seed)
    yield from _ht.cases(PROPERTY, tier)


def run_case(c):
    if c.get('g') in ('E2', 'E2R'):
        return _ht.run_case(PROPERTY, c)
    return _run_case_e1(c)
