"""
C08 — indexing and pointwise evaluation agree with dense indexing.

E1: ALL index tuples over a per-mode alphabet (ints incl. negative, slices incl. steps / negative bounds / length-1,
None insertions, leading or trailing Ellipsis) on every small structure, compared with dense[index] for shape (every
axis, in order) and bits.  apply_mask with every 1-row / 2-row index matrix and the full index set.
"""
import itertools
import numpy as np
import torch
import torchtt
from .. import ref, space, values
from ..core import Outcome
from ..lib import build, call, check_tt, V, exc_name, TT

PROPERTY = 'C08'
CHUNK = 256
RULE = ('all full-length index tuples over the per-mode alphabet {0,-1,mid,:,1:,0:1,::2,:-1} with 0..2 None '
        'insertions at every position and a leading/trailing Ellipsis replacing every run of ":"; distinct = (structure, '
        'index expression); non-trivial = interior rank>1 and a mode>1')
ASSUMPTIONS = ['index tuples shorter than the order without an Ellipsis (partial indexing) are outside the documented '
               'interface and are not enumerated', 'operators: (int,int) and (slice,slice) pairs only, as the statement says']


def BOUNDS(tier):
    return {'max_order': 3 if tier == 'quick' else 4, 'none_insertions': '0..2 (order 3: 0..1 in the quick tier)', 'ellipsis': 'leading or trailing',
            'apply_mask_rows': '1, 2, all'}


def _alphabet(n):
    a = [0, -1, ['s', None, None, None], ['s', 0, 1, None], ['s', None, None, 2]]
    if n > 2:
        a.append(n // 2)
    if n >= 2:
        a += [['s', 1, None, None], ['s', None, -1, None]]
    return a


def _tok(t):
    if isinstance(t, list):
        return slice(t[1], t[2], t[3])
    if t == 'N':
        return None
    if t == 'E':
        return Ellipsis
    return t


def _structs(tier):
    out = []
    D = 3 if tier == 'quick' else 4
    for d in range(1, D + 1):
        if d <= 2:
            sz = space.sizes_full(d, (1, 2, 3))
        elif d == 3:
            sz = [s for s in space.sizes_full(3, (1, 3)) ] + [[2, 3, 4], [1, 3, 4], [4, 1, 3], [3, 4, 1]]
        else:
            sz = [[2, 3, 2, 3], [1, 3, 2, 3], [2, 3, 2, 1], [2, 1, 1, 3]]
        for N in sz:
            rk = space.ranks_dev(d, maxdev=1) if d <= 3 else space.ranks_dev(d, maxdev=0)[:1]
            for R in rk:
                out.append((N, R))
    return out


def cases(tier, seed):
    salt = seed % 7
    for N, R in _structs(tier):
        d = len(N)
        base_ix = list(itertools.product(*[_alphabet(n) for n in N]))
        maxnone = 2 if (d <= 2 or (d == 3 and tier == 'thorough')) else 1
        for ix in base_ix:
            ix = list(ix)
            variants = [ix]
            # leading / trailing Ellipsis replacing a run of ':' (including the empty run)
            full = ['s', None, None, None]
            k = 0
            while True:
                variants.append(['E'] + ix[k:])
                if k < d and ix[k] == full:
                    k += 1
                else:
                    break
            k = d
            while True:
                variants.append(ix[:k] + ['E'])
                if k > 0 and ix[k - 1] == full:
                    k -= 1
                else:
                    break
            for v in variants:
                for nn in range(0, maxnone + 1):
                    for pos in itertools.combinations_with_replacement(range(len(v) + 1), nn):
                        w = list(v)
                        for p in sorted(pos, reverse=True):
                            w.insert(p, 'N')
                        # keep the Ellipsis leading or trailing (that is the documented form)
                        if 'E' in w and w[0] != 'E' and w[-1] != 'E':
                            continue
                        yield {'g': 'idx', 'N': N, 'R': R, 'ix': w, 's': salt, 'dt': 'f64'}
        if d == 1:
            for t in _alphabet(N[0]):
                yield {'g': 'bare', 'N': N, 'R': R, 'ix': t, 's': salt, 'dt': 'f64'}
            yield {'g': 'bare', 'N': N, 'R': R, 'ix': 'E', 's': salt, 'dt': 'f64'}
        if d <= 3:
            for dt in ('c128', 'f32'):
                for ix in base_ix[::7]:
                    yield {'g': 'idx', 'N': N, 'R': R, 'ix': list(ix), 's': salt, 'dt': dt}
    # operators
    PM, PN = (2, 3, 2), (3, 1, 4)
    for d in range(1, 4 if tier == 'thorough' else 3):
        for mask in itertools.product((0, 1), repeat=2 * d):
            if sum(mask) > 1:
                continue
            M = [1 if mask[i] else PM[i] for i in range(d)]
            N = [1 if mask[d + i] else PN[i] for i in range(d)]
            for R in space.ranks_dev(d, maxdev=0)[:1]:
                per = []
                for m, n in zip(M, N):
                    ints = [(a, b) for a in (0, -1) for b in (0, n - 1)]
                    sls = [(x, y) for x in _alphabet(m) if isinstance(x, list) for y in _alphabet(n) if isinstance(y, list)]
                    per.append(ints + sls)
                for combo in itertools.product(*per):
                    yield {'g': 'op', 'M': M, 'N': N, 'R': R, 'ix': [c[0] for c in combo] + [c[1] for c in combo], 's': salt, 'dt': 'f64'}
                # a (None, None) pair inserted at every position (new (1,1) mode), thinner sweep over the other indices
                for combo in list(itertools.product(*per))[::5]:
                    for pos in range(d + 1):
                        rows = [c[0] for c in combo]
                        cols = [c[1] for c in combo]
                        rows.insert(pos, 'N')
                        cols.insert(pos, 'N')
                        yield {'g': 'op', 'M': M, 'N': N, 'R': R, 'ix': rows + cols, 's': salt, 'dt': 'f64'}
    # apply_mask
    for N, R in _structs(tier):
        numel = int(np.prod(N))
        if numel > 24:
            continue
        allidx = list(itertools.product(*[range(n) for n in N]))
        yield {'g': 'mask', 'N': N, 'R': R, 'rows': [list(i) for i in allidx], 's': salt, 'dt': 'f64'}
        for i in allidx:
            yield {'g': 'mask', 'N': N, 'R': R, 'rows': [list(i)], 's': salt, 'dt': 'f64'}
        if numel <= 12:
            for i in allidx:
                for j in allidx:
                    yield {'g': 'mask', 'N': N, 'R': R, 'rows': [list(i), list(j)], 's': salt, 'dt': 'f64'}


def run_case(c):
    g = c['g']
    dt = c['dt']
    fam = 'int1' if dt == 'f32' else 'int'
    if g == 'op':
        st = space.operator_struct(c['M'], c['N'], c['R'], dt, fam)
    else:
        st = space.tensor_struct(c['N'], c['R'], dt, fam)
    x, cx = build(st, 'a', c['s'])
    dx = ref.contract(cx)
    nt = space.nontrivial(st)
    if g == 'mask':
        rows = c['rows']
        key = 'mask|%s|%d' % (space.skey(st), len(rows)) + ('|%s' % rows if len(rows) <= 2 else '')
        idx = torch.tensor(rows, dtype=torch.int64)
        res, e = call(x.apply_mask, idx)
        if e is not None:
            return Outcome(key, nt, 'raises', violations=[V('apply_mask.raises_' + exc_name(e), repr(e))])
        want = dx[tuple(idx[:, k] for k in range(len(c['N'])))]
        site = 'apply_mask.rows%s' % ('1' if len(rows) == 1 else 'N')
        viol = []
        if not torch.is_tensor(res):
            viol.append(V(site + '.not_a_tensor', type(res).__name__))
        elif tuple(res.shape) != tuple(want.shape):
            if res.numel() == want.numel() and torch.equal(ref.up(res).reshape(-1), want.reshape(-1)):
                viol.append(V(site + '.shape.values_agree', 'shape %s, dense %s' % (list(res.shape), list(want.shape))))
            else:
                viol.append(V(site + '.shape', 'shape %s, dense %s' % (list(res.shape), list(want.shape))))
        elif not torch.equal(ref.up(res), want):
            viol.append(V(site + '.value', 'max diff %.3e' % ref.maxdiff(ref.up(res), want)))
        return Outcome(key, nt, 'mask', violations=viol)
    if g == 'bare':
        index = _tok(c['ix'])
    else:
        index = tuple(_tok(t) for t in c['ix'])
    key = '%s|%s|%s' % (g, space.skey(st), c['ix'])
    site = {'idx': 'getitem.tensor', 'bare': 'getitem.bare', 'op': 'getitem.operator'}[g]
    want = dx[index]
    res, e = call(lambda: x[index])
    if e is not None:
        return Outcome(key, nt, 'raises:' + exc_name(e), violations=[V(site + '.raises_' + exc_name(e), '%r for index %s' % (e, c['ix']))])
    all_int = g != 'bare' and all(isinstance(t, int) for t in c['ix']) or (g == 'bare' and isinstance(c['ix'], int))
    if want.dim() == 0:
        # fully integer index: a scalar
        if isinstance(res, TT):
            return Outcome(key, nt, 'TT', violations=[V(site + '.scalar_expected_got_TT', 'N=%s' % res.N)])
        if not torch.is_tensor(res) or res.dim() != 0:
            return Outcome(key, nt, 'scalar?', violations=[V(site + '.scalar_expected', 'got %s %s' % (type(res).__name__, list(getattr(res, 'shape', []))))])
        ok = torch.equal(ref.up(res), want)
        return Outcome(key, nt, 'scalar', violations=[] if ok else [V(site + '.value', 'scalar %r want %r' % (res.item(), want.item()))])
    if not isinstance(res, TT):
        sh = list(res.shape) if torch.is_tensor(res) else None
        if torch.is_tensor(res) and res.numel() == want.numel() and torch.equal(ref.up(res).reshape(-1), want.reshape(-1)):
            return Outcome(key, nt, 'tensor', violations=[V(site + '.shape.singleton_axes_removed.not_a_TT', 'returned a dense tensor of shape %s, dense model shape %s' % (sh, list(want.shape)))])
        return Outcome(key, nt, 'tensor', violations=[V(site + '.not_a_TT', 'returned %s shape %s, dense model shape %s' % (type(res).__name__, sh, list(want.shape)))])
    if g == 'op':
        # dense result: rows' then cols' ; the TT-matrix result must have M'+N' equal to that shape
        dM = sum(1 for t in c['ix'][:len(c['N'])] if isinstance(t, list))
        if not res.is_ttm:
            return Outcome(key, nt, 'kind', violations=[V(site + '.kind', 'tensor returned for operator slice')])
    viol = check_tt(res, want, site, ref.DT[dt], True, ref.absbound(cx), ttm=(g == 'op'))
    from .c07 import _reclass_squeeze
    viol = _reclass_squeeze(viol, res, want, site, True, 0.0)
    return Outcome(key, nt, 'N=%s' % res.N, violations=viol)


# ------------------------------------------------------------------------------------------------ second tier: histories
# every history of depth 2 (3 thorough) whose last event belongs to this property, on the explicit-state explorer; the last
# event is compared with its dense definition on the operands as they are in that state (ttmc/history_tier.py)
from .. import history_tier as _ht

_cases_e1, _run_case_e1 = cases, run_case


def cases(tier, seed):
    yield from _cases_e1(tier, seed)
    yield from _ht.cases(PROPERTY, tier)


def run_case(c):
    if c.get('g') in ('E2', 'E2R'):
        return _ht.run_case(PROPERTY, c)
    return _run_case_e1(c)
