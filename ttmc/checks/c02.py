"""
C02 — rounding never exceeds eps, never raises a rank, leaves its operand intact.

E1 x E3: TT structures (tensors and operators, over-parameterised / deficient / badly scaled / zero / inflated /
TT-SVD provenance) x complete decision walk over eps (incl. eps = 0) x rmax (scalar, per-bond list).
"""
import itertools
import numpy as np
import torch
import torchtt
from .. import ref, space, values, decide
from ..core import Outcome
from ..lib import build, call, V, exc_name, TT, snapshot, snapshot_diff
from .c01 import unfolding_ranks, _interleave

PROPERTY = 'C02'
CHUNK = 4
RULE = ('one case = one (TT input, rmax); the case runs the full eps decision walk of x.round(eps, rmax); states = distinct '
        '(input, rmax, rank-decision sequence); non-trivial = a decision sequence that truncated at least one bond')
ASSUMPTIONS = ['exact unfolding ranks from the checker\'s own SVD, used only with a spectral gap >= 1e6',
               'inflated inputs are built with the library\'s own + and - (validated by C03)']
KINDS = ['raw_gauss', 'raw_scaled', 'raw_tiny', 'raw_huge', 'raw_deficient', 'raw_zero', 'raw_over', 'raw_over_tall', 'inflated', 'svd_decay', 'svd_flat', 'svd_saturating', 'svd_gauss', 'tiny_decay', 'huge_decay',
         'raw_tiny30', 'raw_huge30', 'tiny_decay30', 'huge_decay30']
CR = 1e3


def BOUNDS(tier):
    return {'max_order': 4 if tier == 'quick' else 7, 'operator_max_order': 2 if tier == 'quick' else 3, 'input_kinds': KINDS,
            'rmax': ['inf', 1, 2, 'per-bond list'], 'eps': 'decision walk over [1e-15,1) with +-2 ulp at breakpoints, plus 0, 1e-12, 0.1, 0.5',
            'dtypes': ['f64', 'c128', 'c64 (three input kinds)']}


def cases(tier, seed):
    D = 4 if tier == 'quick' else 7
    salt = seed % 5
    shapes = []
    for d in range(1, 4):
        shapes += [s for s in space.sizes_full(d, (1, 2, 3)) if d < 3 or s.count(1) <= 1]
    shapes += [[3, 4, 3, 4], [2, 3, 4, 5], [1, 3, 4, 2], [3, 4, 2, 1], [3, 1, 4, 2]]
    if D > 4:
        shapes += [[2, 3, 2, 3, 2], [3, 2, 1, 3, 2], [2, 2, 2, 2, 2, 2], [2, 3, 1, 2, 1, 3], [2, 2, 2, 2, 2, 2, 2], [3, 2, 2, 1, 2, 2, 3], [6, 5, 4], [4, 4, 4, 4]]
    for N in shapes:
        d = len(N)
        for kind in KINDS:
            if (kind.startswith('svd') or '_decay' in kind) and int(np.prod(N)) < 4:
                continue
            for dt in ('f64', 'c128', 'c64'):
                if dt == 'c64' and kind not in ('raw_gauss', 'svd_decay', 'inflated'):
                    continue
                if kind == 'raw_over_tall' and (d < 2 or d > 3 or max(N) > 2):
                    continue
                if dt == 'c128' and kind in ('svd_flat', 'raw_zero', 'raw_over'):
                    continue
                for rmax in ('inf', 1, 2, 'list'):
                    if rmax != 'inf' and (d < 2 or dt != 'f64'):
                        continue
                    yield {'k': 't', 'N': N, 'kind': kind, 'dt': dt, 'rmax': rmax, 's': salt}
    PM, PN = (2, 3, 2), (3, 2, 4)
    for d in range(1, (2 if tier == 'quick' else 3) + 1):
        for mask in itertools.product((0, 1), repeat=2 * d):
            if sum(mask) > 1:
                continue
            M = [1 if mask[i] else PM[i] for i in range(d)]
            N = [1 if mask[d + i] else PN[i] for i in range(d)]
            for kind in ('raw_gauss', 'raw_scaled', 'raw_over', 'inflated', 'svd_decay'):
                for dt in ('f64', 'c128'):
                    for rmax in ('inf', 2):
                        if rmax != 'inf' and d < 2:
                            continue
                        yield {'k': 'm', 'M': M, 'N': N, 'kind': kind, 'dt': dt, 'rmax': rmax, 's': salt}


def make_input(c):
    kind, dt, N = c['kind'], c['dt'], c['N']
    d = len(N)
    ttm = c['k'] == 'm'
    M = c.get('M')

    def st(R, fam):
        return space.operator_struct(M, N, R, dt, fam) if ttm else space.tensor_struct(N, R, dt, fam)
    q = [1] + [space.Q[i % 6] for i in range(d - 1)] + [1]
    if kind == 'raw_gauss':
        return build(st(q, 'gauss'), 'a', c['s'])[0]
    if kind == 'raw_scaled':
        return build(st(q, 'scaled'), 'a', c['s'])[0]
    if kind in ('raw_tiny', 'raw_huge', 'raw_tiny30', 'raw_huge30'):
        # overall norm far from 1 (1e-13 / 1e+13), the factor spread unevenly over the cores: every bound is relative
        x = build(st(q, 'gauss'), 'a', c['s'])[0]
        # (second scale 1e-30 / 1e+30: an absolute cut-off placed below the first scale still shows)
        f = {'raw_tiny': 1e-13, 'raw_huge': 1e13, 'raw_tiny30': 1e-30, 'raw_huge30': 1e30}[kind]
        cores = [cc.clone() for cc in x.cores]
        cores[0] = cores[0] * (f ** 0.75)
        cores[-1] = cores[-1] * (f ** 0.25) if d > 1 else cores[-1] * (f ** 0.25)
        return torchtt.TT(cores)
    if kind == 'raw_deficient':
        return build(st([1] + [3] * (d - 1) + [1], 'deficient'), 'a', c['s'])[0]
    if kind == 'raw_zero':
        return build(st(q, 'zero'), 'a', c['s'])[0]
    if kind == 'raw_over':
        return build(st([1] + [7] * (d - 1) + [1], 'gauss'), 'a', c['s'])[0]
    if kind == 'raw_over_tall':
        # rank >= 10 x (mode x next rank): the unfoldings handed to the SVD wrapper are tall and get transposed
        return build(st([1] + [24] * (d - 1) + [1], 'gauss'), 'a', c['s'])[0]
    if kind == 'inflated':
        x = build(st(q, 'gauss'), 'a', c['s'])[0]
        return (x + x) - x
    if kind in ('tiny_decay', 'huge_decay', 'tiny_decay30', 'huge_decay30'):
        # decaying spectra at an overall norm of 1e-13 / 1e+13 (an absolute floor or ceiling in the threshold shows)
        x = make_input(dict(c, kind='svd_decay'))
        f = {'tiny_decay': 1e-13, 'huge_decay': 1e13, 'tiny_decay30': 1e-30, 'huge_decay30': 1e30}[kind]
        cores = [cc.clone() for cc in x.cores]
        cores[0] = cores[0] * (f ** 0.5)
        cores[-1] = cores[-1] * (f ** 0.5)
        if d == 1:
            cores[0] = x.cores[0] * f
        return torchtt.TT(cores)
    fam = kind[4:]
    shape = (M + N) if ttm else N
    A = values.dense_family(shape, fam, dt, c['s'])
    if ttm:
        return torchtt.TT(A, [(m, n) for m, n in zip(M, N)], eps=1e-14)
    return torchtt.TT(A, eps=1e-14)


def run_case(c):
    dt = c['dt']
    d = len(c['N'])
    dtype = ref.DT[dt]
    u = ref.unit_roundoff(dtype)
    x = make_input(c)
    ttm = c['k'] == 'm'
    Rin = [int(r) for r in x.R]
    Xd = ref.contract(x.cores)
    nX = float(torch.linalg.norm(Xd))
    uranks = unfolding_ranks(_interleave(Xd, c['M'], c['N']) if ttm else Xd)
    if c['rmax'] == 'inf':
        rmax_arg, rmaxl = None, [1] + [10 ** 9] * (d - 1) + [1]
    elif c['rmax'] == 'list':
        rmaxl = [1] + [1 + (k % 2) for k in range(d - 1)] + [1]
        rmax_arg = list(rmaxl)
    else:
        rmax_arg, rmaxl = int(c['rmax']), [1] + [int(c['rmax'])] * (d - 1) + [1]
    site = 'round.' + ('operator' if ttm else 'tensor')
    base_key = 'round|%s|%s|%s|%s|%s|rmax=%s' % (c['k'], c.get('M'), c['N'], c['kind'], dt, c['rmax'])
    snap = snapshot(x)
    viol = {}
    keys = set()
    nontrivial = False

    def run(eps):
        def f():
            if rmax_arg is None:
                return x.round(eps)
            return x.round(eps, list(rmax_arg) if isinstance(rmax_arg, list) else rmax_arg)
        v, e, log = decide.logged(f)
        seq = tuple(r for _, _, r in log) if e is None else ('raises', exc_name(e))
        return seq, log, (v, e)

    runs = 0
    for eps, kind, seq, log, (v, e) in decide.walk(run, start=1e-15, stop=1.0, extra=(0.0, 1e-12, 0.1, 0.5)):
        runs += 1
        keys.add(base_key + '|' + str(seq))
        dmsg = snapshot_diff(x, snap)
        if dmsg:
            viol.setdefault(site + '.operand_changed', 'eps=%r: %s' % (eps, dmsg))
            break
        if e is not None:
            viol.setdefault(site + '.raises_' + exc_name(e), 'eps=%r: %r' % (eps, e))
            continue
        if any(r < s.size for s, _, r in log):
            nontrivial = True
        if not isinstance(v, TT):
            viol.setdefault(site + '.not_a_TT', type(v).__name__)
            continue
        try:
            ittm, M, N, R = ref.structure_of(v.cores)
        except ValueError as ex:
            viol.setdefault(site + '.malformed_cores', str(ex))
            continue
        if (ittm, M, N) != (ttm, list(c.get('M', [])) if ttm else [], list(c['N'])):
            viol.setdefault(site + '.shape', 'got ttm=%s M=%s N=%s' % (ittm, M, N))
            continue
        rep = (bool(v.is_ttm), list(v.M) if v.is_ttm else [], list(v.N), [int(r) for r in v.R])
        if rep != (ittm, M, N, R):
            viol.setdefault(site + '.metadata_mismatch', 'reported %s, cores give %s' % (rep, (ittm, M, N, R)))
        if any(cc.dtype != dtype for cc in v.cores):
            viol.setdefault(site + '.dtype', str({cc.dtype for cc in v.cores}))
        if any(a > b for a, b in zip(R, Rin)):
            viol.setdefault(site + '.rank_raised', 'R_in=%s R_out=%s eps=%r' % (Rin, R, eps))
        if any(R[k] > rmaxl[k] for k in range(1, len(R) - 1)):
            viol.setdefault(site + '.rank_exceeds_rmax', 'R=%s rmax=%s' % (R, rmaxl))
        if eps >= 1e-9:
            for k in range(1, len(R) - 1):
                ur = uranks[k - 1]
                if ur is not None and R[k] > max(ur, 1):
                    viol.setdefault(site + '.rank_exceeds_unfolding_rank', 'R=%s unfolding ranks %s eps=%.3e' % (R, uranks, eps))
                    break
        binding = any(R[k] >= rmaxl[k] for k in range(1, len(R) - 1))
        if not binding:
            got = ref.contract(v.cores)
            err = float(torch.linalg.norm(got - Xd))
            tol = eps * nX * (1 + 1e-9) + CR * u * nX
            if not (err <= tol):
                cls = site + '.error_exceeds_eps' + ('.at_threshold_tie' if kind == 'breakpoint' else '')
                viol.setdefault(cls, 'eps=%r (%s): err/|x| = %.6e (R_in=%s R_out=%s)' % (eps, kind, err / max(nX, 1e-300), Rin, R))
    st = decide.walk.last_stats
    vl = [V(k, v) for k, v in viol.items()]
    return Outcome(sorted(keys), nontrivial, 'seqs=%d' % len(st['seqs']), transitions=runs, compared=runs, violations=vl,
                   extra={'walk_runs': st['runs'], 'walk_intervals': st['intervals'], 'walk_breakpoints': st['breakpoints'],
                          'exact_ties_hit': st['ties_hit'], 'cap_hit': st['cap_hit'], 'decision_sequences': len(st['seqs'])})


# ------------------------------------------------------------------------------------------------ second tier: histories
# every history of depth 2 (3 thorough) whose last event belongs to this property, on the explicit-state explorer; the last
# event is compared with its dense definition on the operands as they are in that state (ttmc/history_tier.py)
from .. import history_tier as _ht

_cases_e1, _run_case_e1 = cases, run_case


def cases(tier, seed):
    yield from _cases_e1(tier, seed)
    yield from _ht.cases(PROPERTY, tier)


def run_case(c):
    if c.get('g') in ('E2', 'E2R'):
        return _ht.run_case(PROPERTY, c)
    return _run_case_e1(c)
