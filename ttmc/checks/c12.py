"""
C12 — AMEn solve returns a solution with relative residual at most C*eps.

E1 x finite menus, deviation-bounded: every solver configuration with at most b deviations from the default configuration
(b = 3 quick / 4 thorough) over the axes order, mode sizes, system class, operator rank, rhs rank, eps, preconditioner,
local solver, initial guess, seed; plus the full product on a reduced grid in the thorough tier.
"""
import itertools
import numpy as np
import torch
import torchtt
from .. import ref, space, values
from ..core import Outcome
from ..lib import build, call, V, exc_name, TT

PROPERTY = 'C12'
CHUNK = 4
RULE = ('every configuration with <= b deviations from the default over 10 axes; distinct = the configuration tuple; '
        'non-trivial = operator rank > 1 or rhs rank > 1')
ASSUMPTIONS = ['acceptance |Ax-b| <= 100*eps*|b| computed densely (DESIGN §5 C12)', 'finite seed menu', 'python backend (use_cpp=False)']

AXES = {
    'order': [3, 2, 4],
    'sizes': ['343', '222', '546', '263'],
    'cls': ['lap', 'dd', 'spd', 'cd'],
    'opr': [2, 1, 3, 4],
    'rhs': [2, 1, 4],
    'eps': [1e-6, 1e-3, 1e-10],
    'prec': [None, 'c', 'r'],
    'solver': ['direct', 'gmres', 'bicgstab'],
    'x0': ['none', 'rank2', 'rank1', 'rank5'],
    'bscale': [1.0, 1e6, 1e-6],
    'seed': [0, 1, 2],
}
SIZES = {'cube12': (12, 12, 12, 12, 12), 'big': (12, 10, 11, 12, 10), '343': (3, 4, 3, 4, 3), '222': (2, 2, 2, 2, 2), '546': (5, 4, 6, 5, 4), '263': (2, 6, 3, 2, 6), 'b': (8, 12, 7, 9, 10)}


def BOUNDS(tier):
    return {'axes': {k: [str(x) for x in v] for k, v in AXES.items()}, 'max_deviations': 3 if tier == 'quick' else 4,
            'large_mode_grid': 'sizes (12,10[,11]) x {lap,cd,dd} x {gmres,bicgstab,direct} x prec x eps', 'thorough_extra': 'order 5, sizes up to 12, full product on a reduced grid',
            'second_call': 'every configuration with a user-supplied x0 (direct / gmres local solver): a second solve with another right-hand side and the same x0 object'}


def _configs(maxdev, axes=AXES):
    names = list(axes)
    default = {k: axes[k][0] for k in names}
    seen = set()
    for nd in range(maxdev + 1):
        for which in itertools.combinations(names, nd):
            for vals in itertools.product(*[axes[k][1:] for k in which]):
                cfg = dict(default)
                cfg.update(dict(zip(which, vals)))
                t = tuple(sorted((k, str(v)) for k, v in cfg.items()))
                if t not in seen:
                    seen.add(t)
                    yield cfg


def _big_grid(tier):
    """full product on larger modes (local systems too large for the iterative solvers to be trivially exact)"""
    for order in (2, 3):
        for cls in ('lap', 'cd', 'dd'):
            for solver in ('gmres', 'bicgstab', 'direct'):
                for prec in (None, 'c', 'r'):
                    for eps in (1e-6, 1e-10):
                        if solver == 'direct' and (prec is not None or order == 3):
                            continue
                        for sd in ((0,) if tier == 'quick' else (0, 1)):
                            yield {'order': order, 'sizes': 'big', 'cls': cls, 'opr': 2, 'rhs': 2, 'eps': eps, 'prec': prec, 'solver': solver,
                                   'x0': 'none', 'seed': sd}


def cases(tier, seed):
    for cfg in _big_grid(tier):
        yield cfg
    # local systems that need more than one GMRES cycle (41 Krylov vectors) at a tight eps
    for cls in ('lap', 'cd'):
        for prec in (None, 'c'):
            for eps in (1e-10, 1e-6):
                for rhs in (2, 3):
                    for sd in ((0,) if tier == 'quick' else (0, 1, 2)):
                        yield {'order': 3, 'sizes': 'cube12', 'cls': cls, 'opr': 2, 'rhs': rhs, 'eps': eps, 'prec': prec, 'solver': 'gmres', 'x0': 'none', 'seed': sd}
    for cfg in _configs(3 if tier == 'quick' else 4):
        yield cfg
    if tier == 'thorough':
        ax2 = dict(AXES)
        ax2['order'] = [5]
        ax2['sizes'] = ['222', '343']
        for cfg in _configs(1, ax2):
            yield cfg
        ax3 = dict(AXES)
        ax3['sizes'] = ['b']
        for cfg in _configs(1, ax3):
            yield cfg
        # full product on a reduced grid
        for cls, prec, solver, eps, x0 in itertools.product(AXES['cls'], AXES['prec'], AXES['solver'], AXES['eps'], AXES['x0']):
            yield {'order': 3, 'sizes': '263', 'cls': cls, 'opr': 3, 'rhs': 2, 'eps': eps, 'prec': prec, 'solver': solver, 'x0': x0, 'seed': 1}


def laplace_cores(N, dtype=torch.float64, conv=0.0):
    """Kronecker-sum operator sum_k I x .. x T_k x .. x I with T = tridiag(-1-conv, 2, -1+conv): the discrete Laplacian for conv=0,
    a non-symmetric, (weakly) diagonally dominant convection-diffusion operator for 0 < conv < 1"""
    d = len(N)
    cores = []
    for k, n in enumerate(N):
        L = 2 * torch.eye(n, dtype=dtype) - (1 - conv) * torch.diag(torch.ones(n - 1, dtype=dtype), 1) - (1 + conv) * torch.diag(torch.ones(n - 1, dtype=dtype), -1)
        I = torch.eye(n, dtype=dtype)
        if d == 1:
            c = L[None, :, :, None]
        elif k == 0:
            c = torch.stack([L, I], dim=-1)[None]                 # 1 x n x n x 2
        elif k == d - 1:
            c = torch.stack([I, L], dim=0)[..., None]             # 2 x n x n x 1
        else:
            c = torch.zeros(2, n, n, 2, dtype=dtype)
            c[0, :, :, 0] = I
            c[1, :, :, 0] = L
            c[1, :, :, 1] = I
        cores.append(c)
    return cores


def make_system(cfg):
    d = cfg['order']
    N = list(SIZES[cfg['sizes']][:d])
    r = cfg['opr']
    if cfg['cls'] == 'lap':
        A = torchtt.TT(laplace_cores(N))
    elif cfg['cls'] == 'cd':
        A = torchtt.TT(laplace_cores(N, conv=0.9))
    else:
        st = space.operator_struct(N, N, [1] + [r] * (d - 1) + [1], 'f64', 'gauss')
        B, cB = build(st, 'B', 0)
        Bd = ref.contract(cB)
        n = int(np.prod(N))
        Bm = Bd.reshape(n, n)
        if cfg['cls'] == 'dd':
            shift = 1.5 * float(Bm.abs().sum(dim=1).max())
            A = B + shift * torchtt.eye(N)
        else:
            s2 = float(torch.linalg.matrix_norm(Bm, 2))
            Bh = B * (1.0 / s2)
            A = torchtt.eye(N) + (Bh @ Bh.t())
    sb = space.tensor_struct(N, [1] + [cfg['rhs']] * (d - 1) + [1], 'f64', 'gauss')
    b, cb = build(sb, 'b', 0)
    if cfg.get('bscale', 1.0) != 1.0:
        b = b * float(cfg['bscale'])          # |b| far from 1: the residual bound is relative
    x0 = None
    if cfg['x0'] != 'none':
        r0 = int(cfg['x0'][4:])
        x0 = build(space.tensor_struct(N, [1] + [r0] * (d - 1) + [1], 'f64', 'gauss'), 'x0', 0)[0]
    return A, b, x0, N


def run_case(cfg):
    key = 'solve|' + '|'.join('%s=%s' % (k, cfg[k]) for k in sorted(cfg))
    A, b, x0, N = make_system(cfg)
    d = len(N)
    n = int(np.prod(N))
    Ad = ref.contract(A.cores).reshape(n, n)
    bd = ref.contract(b.cores).reshape(n)
    eps = cfg['eps']
    kw = {'eps': eps, 'preconditioner': cfg['prec'], 'use_cpp': False, 'x0': x0}
    if cfg['solver'] == 'gmres':
        kw.update(max_full=0, local_solver=1)
    elif cfg['solver'] == 'bicgstab':
        kw.update(max_full=0, local_solver=2)
    site = 'amen_solve.%s.%s.prec_%s%s' % (cfg['cls'], cfg['solver'], cfg['prec'], '.large_modes' if cfg['sizes'] in ('big', 'cube12') else '')
    torch.manual_seed(cfg['seed'])
    np.random.seed(cfg['seed'])
    res, e = call(lambda: torchtt.solvers.amen_solve(A, b, **kw))
    nt = cfg['opr'] > 1 or cfg['rhs'] > 1
    if e is not None:
        return Outcome(key, nt, 'raises:' + exc_name(e), violations=[V(site + '.raises_' + exc_name(e), repr(e))])
    if not isinstance(res, TT) or res.is_ttm or list(res.N) != N:
        return Outcome(key, nt, 'shape', violations=[V(site + '.shape', '%s N=%s' % (type(res).__name__, getattr(res, 'N', None)))])
    try:
        xd = ref.contract(res.cores).reshape(n)
    except ValueError as ex:
        return Outcome(key, nt, 'malformed', violations=[V(site + '.malformed_cores', ex)])
    rel = float(torch.linalg.norm(Ad @ xd - bd) / torch.linalg.norm(bd))
    viol = []
    if not (rel <= 100 * eps):
        viol.append(V(site + '.residual_exceeds_100eps', 'residual %.3e eps %.1e cfg %s' % (rel, eps, cfg)))
    if x0 is not None and not viol and cfg['solver'] != 'bicgstab':
        # the SAME guess object warm-starts a second solve with another right-hand side (several right-hand sides, one x0):
        # whatever the first call did with the caller's guess must not reach the second
        sb2 = space.tensor_struct(N, [1] + [cfg['rhs'] + 1] * (d - 1) + [1], 'f64', 'gauss')
        b2 = build(sb2, 'b2', 0)[0]
        b2d = ref.contract(b2.cores).reshape(n)
        torch.manual_seed(cfg['seed'])
        np.random.seed(cfg['seed'])
        res2, e2 = call(lambda: torchtt.solvers.amen_solve(A, b2, **kw))
        if e2 is not None:
            viol.append(V(site + '.second_call_same_x0.raises_' + exc_name(e2), repr(e2)))
        elif not isinstance(res2, TT) or res2.is_ttm or list(res2.N) != N:
            viol.append(V(site + '.second_call_same_x0.shape', '%s N=%s' % (type(res2).__name__, getattr(res2, 'N', None))))
        else:
            rel2 = float(torch.linalg.norm(Ad @ ref.contract(res2.cores).reshape(n) - b2d) / torch.linalg.norm(b2d))
            if not (rel2 <= 100 * eps):
                viol.append(V(site + '.second_call_same_x0.residual_exceeds_100eps', 'residual %.3e eps %.1e cfg %s' % (rel2, eps, cfg)))
    return Outcome(key, nt, 'res/eps=1e%d' % int(np.floor(np.log10(max(rel / eps, 1e-30)))), violations=viol,
                   extra={'ratio_gt_10': int(rel > 10 * eps)})
