"""
C16 — Riemannian projection is an orthogonal projector; the AD gradient is its image.

E1: base-point rank profiles (every achievable profile over ranks <= 3) x z, w structures x f family, tensors and
operators.  Reference: the checker's own dense tangent-space projector built from SVDs of the unfoldings of x
(P = sum_k (P_<=k-1 x I x P_>=k+1) - (P_<=k x P_>=k+1), last term without subtraction), plus the projector identities.
"""
import itertools
import numpy as np
import torch
import torchtt
from .. import ref, space, values
from ..core import Outcome
from ..lib import build, call, V, exc_name, TT, snapshot, snapshot_diff

PROPERTY = 'C16'
CHUNK = 8
RULE = ('every (base-point structure with achievable minimal rank profile, z/w rank, f) inside the bounds; distinct = that tuple; '
        'non-trivial = base point with an interior rank > 1')
ASSUMPTIONS = ['generic Gaussian cores make the stated rank profile minimal (checked by the checker\'s SVD; cases where it is not are skipped and counted)',
               'relative tolerance 1e-9']
TOL = 1e-9


def BOUNDS(tier):
    return {'orders': [2, 3, 4] if tier == 'quick' else [2, 3, 4, 5], 'base_ranks': '{1,2,3}^(d-1) achievable', 'zw_ranks': [1, 2, 4],
            'f': ['quadratic misfit', 'linear functional', 'quartic']}


def _achievable(N, R):
    d = len(N)
    for k in range(1, d):
        if R[k] > R[k - 1] * N[k - 1] or R[k] > N[k] * R[k + 1]:
            return False
    return True


def cases(tier, seed):
    orders = [2, 3, 4] if tier == 'quick' else [2, 3, 4, 5]
    PS = (3, 4, 2, 3, 2)
    for d in orders:
        sizes = [list(PS[:d])]
        if d <= 3:
            sizes += [[2] * d, [4, 3, 4][:d]]
            s1 = list(PS[:d])
            s1[d // 2] = 1
            sizes.append(s1)
        for N in sizes:
            for R in space.ranks_alphabet(d, (1, 2, 3)):
                if not _achievable(N, R):
                    continue
                for rz in (1, 2, 4):
                    yield {'k': 't', 'N': N, 'R': R, 'rz': rz, 'op': 'proj'}
                for f in ('quad', 'lin', 'quart'):
                    yield {'k': 't', 'N': N, 'R': R, 'f': f, 'op': 'grad'}
    # histories on ONE base-point object: every sequence of up to 3 calls (projection / gradient of three f) must give, at
    # every step, the same result as on a fresh object (state cached on or leaked into x shows on the second use)
    steps = ['proj', 'quad', 'lin', 'quart']
    for N, R in (([3, 4, 2], [1, 2, 2, 1]), ([3, 4], [1, 3, 1]), ([2, 3, 2, 3], [1, 2, 3, 2, 1])):
        for L in (2, 3):
            for seq in itertools.product(steps, repeat=L):
                if tier == 'quick' and L == 3 and len(N) != 3:
                    continue
                yield {'k': 't', 'N': N, 'R': R, 'op': 'seq', 'seq': list(seq)}
    for seq in itertools.product(steps[:3], repeat=2):
        yield {'k': 'm', 'M': [2, 3], 'N': [3, 2], 'R': [1, 2, 1], 'op': 'seq', 'seq': list(seq)}
    for d in (2, 3):
        M, N = [2, 3, 2][:d], [3, 2, 2][:d]
        for R in space.ranks_alphabet(d, (1, 2, 3)):
            if not _achievable([m * n for m, n in zip(M, N)], R):
                continue
            for rz in (1, 3):
                yield {'k': 'm', 'M': M, 'N': N, 'R': R, 'rz': rz, 'op': 'proj'}
            for f in ('quad', 'lin'):
                yield {'k': 'm', 'M': M, 'N': N, 'R': R, 'f': f, 'op': 'grad'}


def _as_tensor(dense, c):
    """dense M+N array of an operator -> tensor with combined modes (m_k n_k); tensors unchanged"""
    if c['k'] == 't':
        return dense
    M, N = c['M'], c['N']
    d = len(N)
    perm = [j for i in range(d) for j in (i, d + i)]
    return dense.permute(perm).reshape([m * n for m, n in zip(M, N)])


def tangent_projector(X):
    """returns a function Z -> P_T Z for the dense tensor X with modes n_1..n_d (reference, via unfolding SVDs); also ranks"""
    shp = list(X.shape)
    d = len(shp)
    PL = [None] * (d + 1)      # PL[k]: projector on modes 1..k as matrix (prod n_1..n_k)^2 ; PL[0] = [[1]]
    PR = [None] * (d + 2)      # PR[k]: projector on modes k..d
    PL[0] = torch.ones(1, 1, dtype=X.dtype)
    PR[d + 1] = torch.ones(1, 1, dtype=X.dtype)
    ranks = []
    for k in range(1, d):
        m = int(np.prod(shp[:k]))
        U, S, Vh = torch.linalg.svd(X.reshape(m, -1), full_matrices=False)
        r = int((S > S[0] * 1e-10).sum())
        ranks.append(r)
        U, Vh = U[:, :r], Vh[:r, :]
        PL[k] = U @ U.T
        PR[k + 1] = Vh.T @ Vh
    def P(Z):
        out = torch.zeros_like(Z)
        for k in range(1, d + 1):
            a = int(np.prod(shp[:k - 1]))
            n = shp[k - 1]
            b = int(np.prod(shp[k:]))
            Zk = Z.reshape(a, n, b)
            t1 = torch.einsum('ij,jnb,bc->inc', PL[k - 1], Zk, PR[k + 1] if k < d else torch.ones(1, 1, dtype=X.dtype))
            out = out + t1.reshape(shp)
            if k < d:
                Z2 = Z.reshape(a * n, b)
                t2 = PL[k] @ Z2 @ PR[k + 1]
                out = out - t2.reshape(shp)
        return out
    return P, ranks


def _inner(a, b):
    return float((a * b).sum())


def run_case(c):
    ttm = c['k'] == 'm'
    N, R = c['N'], c['R']
    d = len(N)
    st = space.operator_struct(c['M'], N, R, 'f64', 'gauss') if ttm else space.tensor_struct(N, R, 'f64', 'gauss')
    x, cx = build(st, 'x', 0)
    Xd = ref.contract(cx)
    Xt = _as_tensor(Xd, c)
    P, ranks = tangent_projector(Xt)
    key = 'riem|' + '|'.join('%s=%s' % (k, c[k]) for k in sorted(c))
    nt = any(r > 1 for r in R[1:-1])
    if ranks != R[1:-1]:
        return Outcome(key + '|skip', False, 'skipped: profile not minimal', transitions=0, compared=0, extra={'skipped_not_minimal': 1})
    nX = float(torch.linalg.norm(Xd))
    snap = snapshot(x)
    viol = []
    site = 'projection.' + ('operator' if ttm else 'tensor')

    def mk(role, r):
        s2 = dict(st, R=[1] + [r] * (d - 1) + [1])
        return build(s2, role, 0)

    def dense_of(t):
        return _as_tensor(ref.contract(t.cores), c)

    if c['op'] == 'seq':
        t, ct = mk('t', 2)
        Td = ref.contract(ct)
        cten, cc = mk('c', 2)
        Cd = ref.contract(cc)
        z, cz = mk('z', 3)
        Zt = _as_tensor(ref.contract(cz), c)
        fns = {'quad': (lambda X: 0.5 * (X - t).norm() ** 2, Xd - Td),
               'lin': ((lambda X: torchtt.dot(X, cten)) if not ttm else (lambda X: (X * cten).sum()), Cd),
               'quart': (lambda X: (X * X).norm() ** 2, 4 * Xd ** 3)}
        for i, st_ in enumerate(c['seq']):
            tag = 'step%d_of_%s' % (i + 1, '-'.join(c['seq'][:i + 1]))
            if st_ == 'proj':
                r, e = call(torchtt.manifold.riemannian_projection, x, z)
                want, sc = P(Zt), float(torch.linalg.norm(Zt))
            else:
                r, e = call(torchtt.manifold.riemannian_gradient, x, fns[st_][0])
                Gt = _as_tensor(fns[st_][1], c)
                want, sc = P(Gt), float(torch.linalg.norm(Gt))
            if e is not None:
                viol.append(V('sequence.%s.raises_%s' % (st_, exc_name(e)), '%s: %r' % (tag, e)))
                break
            if not isinstance(r, TT) or list(r.N) != N:
                viol.append(V('sequence.%s.shape' % st_, tag))
                break
            if float(torch.linalg.norm(dense_of(r) - want)) > 1e-8 * (sc + 1e-300):
                viol.append(V('sequence.%s.differs_on_reused_base_point' % st_ if i > 0 else 'sequence.%s.differs' % st_,
                              '%s: rel diff %.3e' % (tag, float(torch.linalg.norm(dense_of(r) - want)) / (sc + 1e-300))))
                break
            dmsg = snapshot_diff(x, snap)
            if dmsg:
                viol.append(V('sequence.%s.base_point_changed' % st_, '%s: %s' % (tag, dmsg)))
                break
        return Outcome(key, nt, 'seq%d' % len(c['seq']), transitions=len(c['seq']), compared=len(c['seq']), violations=viol)
    if c['op'] == 'proj':
        z, cz = mk('z', c['rz'])
        w, cw = mk('w', max(1, c['rz'] - 1))
        Zt, Wt = _as_tensor(ref.contract(cz), c), _as_tensor(ref.contract(cw), c)
        pz, e = call(torchtt.manifold.riemannian_projection, x, z)
        if e is not None:
            return Outcome(key, nt, 'raises', violations=[V(site + '.raises_' + exc_name(e), repr(e))])
        if not isinstance(pz, TT) or pz.is_ttm != ttm or list(pz.N) != N:
            return Outcome(key, nt, 'shape', violations=[V(site + '.shape', str(getattr(pz, 'N', type(pz))))])
        PZ = dense_of(pz)
        sc = float(torch.linalg.norm(Zt)) + 1e-300
        # reference projector
        if float(torch.linalg.norm(PZ - P(Zt))) > TOL * sc:
            viol.append(V(site + '.differs_from_tangent_projector', 'rel diff %.3e' % (float(torch.linalg.norm(PZ - P(Zt))) / sc)))
        if any(a > 2 * b for a, b in zip(pz.R[1:-1], R[1:-1])):
            viol.append(V(site + '.rank_exceeds_2r', 'R(Pz)=%s R(x)=%s' % (pz.R, R)))
        ppz = torchtt.manifold.riemannian_projection(x, pz)
        if float(torch.linalg.norm(dense_of(ppz) - PZ)) > TOL * sc:
            viol.append(V(site + '.not_idempotent', ''))
        pw = torchtt.manifold.riemannian_projection(x, w)
        PW = dense_of(pw)
        sw = float(torch.linalg.norm(Wt)) + 1e-300
        if abs(_inner(PZ, Wt) - _inner(Zt, PW)) > TOL * sc * sw:
            viol.append(V(site + '.not_self_adjoint', '%.6e vs %.6e' % (_inner(PZ, Wt), _inner(Zt, PW))))
        if abs(_inner(Zt - PZ, PW)) > TOL * sc * sw:
            viol.append(V(site + '.residual_not_orthogonal', '%.3e' % _inner(Zt - PZ, PW)))
        px = torchtt.manifold.riemannian_projection(x, x)
        if float(torch.linalg.norm(dense_of(px) - Xt)) > TOL * nX:
            viol.append(V(site + '.x_not_fixed', ''))
        a, b = 0.7, -1.3
        lin = torchtt.manifold.riemannian_projection(x, a * z + b * w)
        if float(torch.linalg.norm(dense_of(lin) - (a * PZ + b * PW))) > TOL * (sc + sw):
            viol.append(V(site + '.not_linear', ''))
        ntr = 6
    else:
        t, ct = mk('t', 2)
        Td = ref.contract(ct)
        cten, cc = mk('c', 2)
        Cd = ref.contract(cc)
        f = c['f']
        if f == 'quad':
            fn = lambda X: 0.5 * (X - t).norm() ** 2
            G = Xd - Td
        elif f == 'lin':
            fn = (lambda X: torchtt.dot(X, cten)) if not ttm else (lambda X: (X * cten).sum())
            G = Cd
        else:
            fn = lambda X: (X * X).norm() ** 2
            G = 4 * Xd ** 3
        site = 'gradient.' + ('operator.' if ttm else 'tensor.') + f
        g, e = call(torchtt.manifold.riemannian_gradient, x, fn)
        if e is not None:
            return Outcome(key, nt, 'raises', violations=[V(site + '.raises_' + exc_name(e), repr(e)[:300])])
        if not isinstance(g, TT) or g.is_ttm != ttm or list(g.N) != N:
            return Outcome(key, nt, 'shape', violations=[V(site + '.shape', str(getattr(g, 'N', type(g))))])
        Gt = _as_tensor(G, c)
        want = P(Gt)
        got = dense_of(g)
        sc = float(torch.linalg.norm(Gt)) + 1e-300
        if float(torch.linalg.norm(got - want)) > 1e-8 * sc:
            viol.append(V(site + '.differs_from_projected_euclidean_gradient', 'rel diff %.3e' % (float(torch.linalg.norm(got - want)) / sc)))
        ntr = 1
    dmsg = snapshot_diff(x, snap)
    if dmsg:
        viol.append(V(site + '.base_point_changed', dmsg))
    return Outcome(key, nt, c['op'], transitions=ntr, compared=ntr, violations=viol)
