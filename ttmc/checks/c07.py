"""
C07 — norm, dot, sum, bilinear_form equal their dense values.

E1: structures x every axis subset x autograd state x dtype, lock-step with the dense reductions.
"""
import itertools
import numpy as np
import torch
import torchtt
from .. import ref, space, values
from ..core import Outcome
from ..lib import build, call, check_tt, V, exc_name, TT

PROPERTY = 'C07'
CHUNK = 64
RULE = ('every (reduction, structure, axis subset, autograd state, dtype) inside the bounds executed once and compared '
        'with the dense reduction; distinct = canonical key of that tuple; non-trivial = interior rank>1 and a mode>1')
ASSUMPTIONS = ['scalar results may be 0-d or 1-element tensors or Python numbers (bilinear_form documents a 1-element tensor)']
DTF = [('f64', 'int'), ('f64', 'gauss'), ('c128', 'int'), ('f64', 'zero')]


def BOUNDS(tier):
    return {'max_order_tensor': 4 if tier == 'quick' else 5, 'max_order_operator': 3, 'axis_subsets': 'all (the empty subset included)',
            'autograd_states': ['off', 'leaf', 'nonleaf'], 'dtypes': DTF}


def _tsizes(d, tier):
    out = space.sizes_distinct(d)
    if d >= 4:
        out = [s for s in out if s.count(1) <= (1 if tier == 'quick' else 2)]
    return out


def _msizes(d):
    PM, PN = (2, 3, 2), (3, 2, 4)
    out = []
    for mask in itertools.product((0, 1), repeat=2 * d):
        if sum(mask) > 2:
            continue
        out.append(([1 if mask[i] else PM[i] for i in range(d)], [1 if mask[d + i] else PN[i] for i in range(d)]))
    return out


def cases(tier, seed):
    D = 4 if tier == 'quick' else 5
    salt = seed % 7
    for d in range(1, D + 1):
        rks = space.ranks_binary(d) if d <= 3 else space.ranks_dev(d, maxdev=1)
        rkb = space.ranks_binary(d, offset=1) if d <= 3 else space.ranks_dev(d, offset=1, maxdev=1)
        for N in _tsizes(d, tier):
            for R in rks:
                for dt, fam in DTF:
                    base = {'k': 't', 'N': N, 'R': R, 'dt': dt, 'fam': fam, 's': salt}
                    for sq in (False, True):
                        for ag in ('off', 'leaf', 'nonleaf'):
                            if ag != 'off' and fam == 'zero':
                                continue
                            yield dict(base, op='norm', sq=sq, ag=ag)
                    yield dict(base, op='sum_all')
                    yield dict(base, op='sum', ax=[], form='list')       # the empty subset of modes: the tensor itself
                    for ax in space.subsets(d, nonempty=True):
                        yield dict(base, op='sum', ax=ax, form='list')
                        if len(ax) == 1:
                            yield dict(base, op='sum', ax=ax, form='int')
                    if fam == 'zero':
                        continue
                    for Rb in rkb[:3]:
                        yield dict(base, op='dot', Rb=Rb)
                    for ax in space.subsets(d, nonempty=True):
                        rb_all = space.ranks_dev(len(ax), offset=1, maxdev=1)
                        for Rb in rb_all[:2]:
                            yield dict(base, op='dot_axis', ax=ax, Rb=Rb)
    for d in range(1, 4):
        for M, N in _msizes(d):
            for R in space.ranks_binary(d):
                for dt, fam in DTF[:3]:
                    base = {'k': 'm', 'M': M, 'N': N, 'R': R, 'dt': dt, 'fam': fam, 's': salt}
                    for sq in (False, True):
                        for ag in ('off', 'leaf'):
                            yield dict(base, op='norm', sq=sq, ag=ag)
                    yield dict(base, op='sum_all')
                    yield dict(base, op='sum', ax=[], form='list')
                    for ax in space.subsets(d, nonempty=True):
                        yield dict(base, op='sum', ax=ax, form='list')
                    for Rx in space.ranks_dev(d, offset=1, maxdev=0):
                        for Ry in space.ranks_dev(d, offset=2, maxdev=0):
                            yield dict(base, op='bilinear', Rx=Rx, Ry=Ry)


def _scalar_check(res, want, site, tol):
    """res must be a number / 0-d / 1-element tensor equal to want"""
    if isinstance(res, TT):
        return [V(site + '.scalar_expected_got_TT', 'N=%s' % res.N)]
    if torch.is_tensor(res):
        if res.numel() != 1:
            return [V(site + '.scalar_expected', 'shape %s' % list(res.shape))]
        v = ref.up(res).reshape([])
    elif isinstance(res, (int, float, complex, np.number)):
        v = torch.tensor(res)
    else:
        return [V(site + '.scalar_expected', type(res).__name__)]
    v = complex(v)
    w = complex(want)
    if not (abs(v - w) <= tol) or v != v:
        return [V(site + '.value', 'got %r want %r (tol %.2e)' % (v, w, tol))]
    return []


def run_case(c):
    op, dt, fam = c['op'], c['dt'], c['fam']
    dtype = ref.DT[dt]
    st = space.tensor_struct(c['N'], c['R'], dt, fam) if c['k'] == 't' else space.operator_struct(c['M'], c['N'], c['R'], dt, fam)
    x, cx = build(st, 'a', c['s'])
    dx = ref.contract(cx)
    bx = ref.absbound(cx)
    d = len(c['N'])
    nt = space.nontrivial(st)
    kd = 'ten' if c['k'] == 't' else 'op'
    u = ref.unit_roundoff(dtype)
    numel = max(1, dx.numel())
    if op == 'norm':
        key = 'norm|%s|%s|%s' % (c['sq'], c['ag'], space.skey(st))
        site = 'norm.%s.%s' % (kd, 'autograd' if c['ag'] != 'off' else 'plain')
        if d == 1:
            site += '.order1'
        y = x
        if c['ag'] == 'leaf':
            torchtt.grad.watch(x)
        elif c['ag'] == 'nonleaf':
            torchtt.grad.watch(x)
            y = x * 1.0
        res, e = call(y.norm, c['sq'])
        if e is not None:
            return Outcome(key, nt, 'raises', violations=[V(site + '.raises_' + exc_name(e), repr(e))])
        n2 = float((dx.abs() ** 2).sum())
        want = n2 if c['sq'] else n2 ** 0.5
        tol = 1e3 * u * (bx * bx * numel if c['sq'] else bx * numel ** 0.5) + 1e-300
        if fam == 'zero':
            tol = 0.0
        return Outcome(key, nt, 'norm', violations=_scalar_check(res, want, site, tol))
    if op == 'sum_all':
        key = 'sum_all|' + space.skey(st)
        site = 'sum_all.' + kd
        res, e = call(x.sum)
        if e is not None:
            return Outcome(key, nt, 'raises', violations=[V(site + '.raises_' + exc_name(e), repr(e))])
        tol = 0.0 if fam in ('int', 'zero') else 1e3 * u * bx * numel
        return Outcome(key, nt, 'sum', violations=_scalar_check(res, dx.sum(), site, tol))
    if op == 'sum':
        ax = c['ax']
        key = 'sum|%s|%s|%s' % (ax, c['form'], space.skey(st))
        site = 'sum_axes.' + kd + ('.empty_subset' if not ax else '')
        arg = ax[0] if c['form'] == 'int' else list(ax)
        res, e = call(x.sum, arg)
        if e is not None:
            return Outcome(key, nt, 'raises', violations=[V(site + '.raises_' + exc_name(e), repr(e))])
        dims = list(ax) if c['k'] == 't' else list(ax) + [a + d for a in ax]
        want = dx.sum(dim=dims) if dims else dx          # (torch reads an empty dim list as 'all dims'; the property means the empty subset)
        exact = fam in ('int', 'zero')
        bound = bx * numel
        if len(ax) == d:
            return Outcome(key, nt, 'scalar', violations=_scalar_check(res, want, site + '.all_axes', 0.0 if exact else 1e3 * u * bound))
        viol = check_tt(res, want, site, dtype, exact, bound, ttm=(c['k'] == 'm'))
        viol = _reclass_squeeze(viol, res, want, site, exact, u * 1e3 * bound)
        return Outcome(key, nt, 'N=%s' % (res.N if isinstance(res, TT) else '?'), violations=viol)
    if op == 'dot':
        sb = space.tensor_struct(c['N'], c['Rb'], dt, fam)
        b, cb = build(sb, 'b', c['s'])
        db = ref.contract(cb)
        key = 'dot|%s|%s' % (space.skey(st), space.skey(sb))
        res, e = call(torchtt.dot, x, b)
        if e is not None:
            return Outcome(key, nt, 'raises', violations=[V('dot.raises_' + exc_name(e), repr(e))])
        want = (dx * db.conj()).sum()
        bound = bx * ref.absbound(cb) * numel
        return Outcome(key, nt, 'dot', violations=_scalar_check(res, want, 'dot.full', 0.0 if fam == 'int' else 1e3 * u * bound))
    if op == 'dot_axis':
        ax = c['ax']
        Nb = [c['N'][i] for i in ax]
        sb = space.tensor_struct(Nb, c['Rb'], dt, fam)
        b, cb = build(sb, 'b', c['s'])
        db = ref.contract(cb)
        key = 'dotax|%s|%s|%s' % (ax, space.skey(st), space.skey(sb))
        site = 'dot.axis'
        res, e = call(torchtt.dot, x, b, list(ax))
        if e is not None:
            return Outcome(key, nt, 'raises', violations=[V(site + '.raises_' + exc_name(e), repr(e))])
        want = torch.tensordot(dx, db.conj(), dims=(list(ax), list(range(len(ax)))))
        exact = fam == 'int'
        bound = bx * ref.absbound(cb) * numel
        if len(ax) == d:
            return Outcome(key, nt, 'scalar', violations=_scalar_check(res, want, site + '.all_axes', 0.0 if exact else 1e3 * u * bound))
        viol = check_tt(res, want, site, dtype, exact, bound, ttm=False)
        viol = _reclass_squeeze(viol, res, want, site, exact, u * 1e3 * bound)
        return Outcome(key, nt, 'N=%s' % (res.N if isinstance(res, TT) else '?'), violations=viol)
    if op == 'bilinear':
        sx = space.tensor_struct(c['M'], c['Rx'], dt, fam)
        sy = space.tensor_struct(c['N'], c['Ry'], dt, fam)
        xx, cxx = build(sx, 'x', c['s'])
        yy, cyy = build(sy, 'y', c['s'])
        dxx, dyy = ref.contract(cxx), ref.contract(cyy)
        key = 'bil|%s|%s|%s' % (space.skey(st), c['Rx'], c['Ry'])
        res, e = call(torchtt.bilinear_form, xx, x, yy)
        if e is not None:
            return Outcome(key, nt, 'raises', violations=[V('bilinear.raises_' + exc_name(e), repr(e))])
        Ay = torch.tensordot(dx, dyy, dims=(list(range(d, 2 * d)), list(range(d))))
        want = (dxx.conj() * Ay).sum()
        bound = bx * ref.absbound(cxx) * ref.absbound(cyy) * numel
        return Outcome(key, nt, 'bilinear', violations=_scalar_check(res, want, 'bilinear', 0.0 if fam == 'int' else 1e3 * u * bound))
    raise KeyError(op)


def _reclass_squeeze(viol, res, want, site, exact, tol):
    """If the only disagreement is that size-1 axes of the dense result are missing from the TT result while all
    values agree, report the specific symptom class  <site>.shape.singleton_axes_removed  (one defect, one class)."""
    if not viol or not isinstance(res, TT):
        return viol
    if not any(v['cls'].endswith('.shape') for v in viol):
        return viol
    try:
        got = ref.contract(res.cores)
    except Exception:
        return viol
    gs, ws = [n for n in got.shape], [n for n in want.shape]
    if [n for n in gs if n != 1] == [n for n in ws if n != 1] and len(gs) < len(ws):
        g2, w2 = got.reshape(-1), ref.up(want).reshape(-1)
        if g2.is_complex() != w2.is_complex():
            g2, w2 = g2.to(torch.complex128), w2.to(torch.complex128)
        if g2.numel() == w2.numel() and (torch.equal(g2, w2) if exact else ref.close(g2, w2, tol)):
            return [V(site + '.shape.singleton_axes_removed', 'values agree; result modes %s, dense shape %s' % (gs, ws))]
    return viol


# ------------------------------------------------------------------------------------------------ second tier: histories
# every history of depth 2 (3 thorough) whose last event belongs to this property, on the explicit-state explorer; the last
# event is compared with its dense definition on the operands as they are in that state (ttmc/history_tier.py)
from .. import history_tier as _ht

_cases_e1, _run_case_e1 = cases, run_case


def cases(tier, seed):
    yield from _cases_e1(tier, seed)
    yield from _ht.cases(PROPERTY, tier)


def run_case(c):
    if c.get('g') in ('E2', 'E2R'):
        return _ht.run_case(PROPERTY, c)
    return _run_case_e1(c)
