"""
C11 — DMRG and AMEn products approximate the exact product within eps.

E1 x finite menus: operand-pair structures x eps menu x internal RNG seed menu x initial guess menu x dtype, each run
compared with the dense product.  (eps is consulted by these routines also through convergence tests, so it is a menu,
not a decision walk; the seed menu is a finite set covered completely - "all seeds" is outside the bound.)
"""
import itertools
import numpy as np
import torch
import torchtt
from .. import ref, space, values
from ..core import Outcome
from ..lib import build, call, V, exc_name, TT, snapshot, snapshot_diff

PROPERTY = 'C11'
CHUNK = 8
RULE = ('every (routine, operand structures, value family, eps, seed, initial guess, dtype) inside the bounds; distinct = that '
        'tuple; non-trivial = an operand with interior rank>1 and a mode>1')
ASSUMPTIONS = ['acceptance bound |res-exact| <= 10*eps*|exact| + 1e4*u*|exact| (DESIGN §5 C11)', 'finite seed menu',
               'python backend (use_cpp=False); the compiled backend is C17']
PM, PN, PK = (2, 3, 4, 2, 3, 2), (3, 4, 2, 3, 2, 3), (4, 2, 3, 4, 2, 2)
EPS = [1e-12, 1e-8, 1e-4, 1e-1]
CR = 1e4


def BOUNDS(tier):
    return {'max_order': 4 if tier == 'quick' else 6, 'seeds': 3 if tier == 'quick' else 8, 'eps': EPS,
            'initial_guess': ['none', 'rank1', 'rank5', 'zero'], 'routines': ['fast_matvec', 'dmrg_hadamard', 'amen_mv', 'amen_mm'],
            'operator_ranks': [1, 2, 4], 'vector_ranks': [1, 3],
            'nswp': 'default, and 1..3 for fast_matvec / dmrg_hadamard where one sweep suffices: order 2 with guess none/rank1/zero/exact/exact_round, orders 3..4 with the exact product as guess'}


def _structs(tier):
    D = 4 if tier == 'quick' else 6
    out = []
    for d in range(1, D + 1):
        base = (list(PM[:d]), list(PN[:d]))
        out.append(base)
        if d <= 4:
            for pos in range(d):
                for side in (0, 1):
                    M, N = list(PM[:d]), list(PN[:d])
                    (M if side == 0 else N)[pos] = 1
                    out.append((M, N))
            if d <= 3:
                out.append(([1] * d, list(PN[:d])))
                out.append((list(PM[:d]), [1] * d))
    return out


def _pair_singletons(tier):
    """structures with a whole mode pair (M_k, N_k) = (1, 1) at every position, orders 2..5 (6 thorough)"""
    out = []
    for d in range(2, (5 if tier == 'quick' else 6) + 1):
        for pos in range(d):
            M, N = list(PM[:d]), list(PN[:d])
            M[pos] = N[pos] = 1
            out.append((M, N))
    return out


def cases(tier, seed):
    S = 3 if tier == 'quick' else 8
    for M, N in _pair_singletons(tier):
        for fn in ('fast_matvec', 'dmrg_hadamard', 'amen_mv', 'amen_mm'):
            for ra, rx in ((2, 3), (3, 3)):
                for eps in (1e-8, 1e-3):
                    for sd in range(2 if tier == 'quick' else 4):
                        for init in ('none', 'zero', 'rank1'):
                            if init != 'none' and sd > 0:
                                continue
                            yield {'fn': fn, 'M': M, 'N': N, 'ra': ra, 'rx': rx, 'fam': 'gauss', 'dt': 'f64', 'eps': eps, 'seed': sd, 'init': init}
    # sweep budget (nswp) as an environment answer: wherever ONE sweep is mathematically enough the bound must still hold with
    # nswp = 1, 2, 3 - order-2 operands (the single supercore is the whole result) with any guess, and any order when the
    # guess already is the exact product (its interfaces contain the solution's, so every local projection is exact)
    for M, N in _structs(tier):
        d = len(N)
        if d < 2 or d > 4:
            continue
        for fn in ('fast_matvec', 'dmrg_hadamard'):
            for nswp in (1, 2, 3):
                for init in (('none', 'rank1', 'zero', 'exact', 'exact_round') if d == 2 else ('exact', 'exact_round')):
                    for dt in ('f64', 'c128'):
                        for eps in (1e-8, 1e-4):
                            if d > 2 and (dt == 'c128' or eps == 1e-4) and tier == 'quick':
                                continue
                            yield {'fn': fn, 'M': M, 'N': N, 'ra': 2, 'rx': 3, 'fam': 'gauss', 'dt': dt, 'eps': eps, 'seed': 0, 'init': init, 'nswp': nswp}
    for M, N in _structs(tier):
        d = len(N)
        for fn in ('fast_matvec', 'dmrg_hadamard', 'amen_mv', 'amen_mm'):
            slow = fn.startswith('amen')
            for ra, rx in ((1, 1), (2, 3), (4, 3), (2, 1)):
                if d == 1 and (ra, rx) != (1, 1):
                    continue
                if slow and (ra, rx) in ((4, 3), (2, 1)) and tier == 'quick':
                    continue
                for fam in ('gauss', 'decay'):
                    if fam == 'decay' and (d < 2 or (ra, rx) != (2, 3)):
                        continue
                    for dt in ('f64', 'c128'):
                        if dt == 'c128' and (slow or (ra, rx) == (4, 3)):
                            continue
                        for eps in EPS:
                            for sd in range(S):
                                for init in ('none', 'rank1', 'rank5', 'zero'):
                                    if init != 'none' and (sd > 0 or eps in (1e-12, 1e-1) and tier == 'quick'):
                                        continue
                                    if slow and tier == 'quick' and (sd > 1 or (init in ('rank5', 'zero') and d > 2) or (d == 4 and eps != 1e-8)):
                                        continue
                                    yield {'fn': fn, 'M': M, 'N': N, 'ra': ra, 'rx': rx, 'fam': fam, 'dt': dt, 'eps': eps, 'seed': sd, 'init': init}


def _decayify(cores):
    """scale the rank slices geometrically so that the unfolding spectra decay"""
    out = []
    for c in cores:
        c = c.clone()
        r = c.shape[-1]
        if r > 1:
            w = torch.tensor([0.05 ** j for j in range(r)], dtype=torch.float64).to(c.dtype)
            c = c * w
        out.append(c)
    return out


def _mk(st, role, fam):
    cores = values.cores_for(dict(st, fam='gauss'), role, 0)
    if fam == 'decay':
        cores = _decayify(cores)
    return torchtt.TT([c.clone() for c in cores]), cores


def _init_guess(kind, shape_struct, dt):
    if kind == 'none':
        return None
    d = len(shape_struct['N'])
    r = {'rank1': 1, 'rank5': 5, 'zero': 2}[kind]
    st = dict(shape_struct, R=[1] + [r] * (d - 1) + [1], dt=dt, fam='zero' if kind == 'zero' else 'gauss')
    return build(st, 'init', 0)[0]


def _exact_guess(kind, prod):
    """the exact product (library algebra, validated by C03/C04) as the user-supplied guess, unrounded or rounded to 1e-13"""
    z = prod()
    return z.round(1e-13) if kind == 'exact_round' else z


def run_case(c):
    fn, M, N, dt, eps = c['fn'], c['M'], c['N'], c['dt'], c['eps']
    d = len(N)
    dtype = ref.DT[dt]
    u = ref.unit_roundoff(dtype)
    RA = [1] + [c['ra']] * (d - 1) + [1]
    Rx = [1] + [c['rx']] * (d - 1) + [1]
    key = 'prod|' + '|'.join('%s=%s' % (k, c[k]) for k in sorted(c))
    site = fn + ('.order1' if d == 1 else '') + ('.nswp%d' % c['nswp'] if 'nswp' in c else '')
    kw = {'nswp': c['nswp']} if 'nswp' in c else {}
    if fn in ('fast_matvec', 'amen_mv'):
        sA = space.operator_struct(M, N, RA, dt, 'gauss')
        sx = space.tensor_struct(N, Rx, dt, 'gauss')
        A, cA = _mk(sA, 'A', c['fam'])
        x, cx = _mk(sx, 'x', c['fam'])
        exact = torch.tensordot(ref.contract(cA), ref.contract(cx), dims=(list(range(d, 2 * d)), list(range(d))))
        out_struct = {'k': 't', 'N': M}
        y0 = _exact_guess(c['init'], lambda: A @ x) if c['init'].startswith('exact') else _init_guess(c['init'], out_struct, dt)
        ops = [A, x] + ([y0] if y0 is not None else [])
        if fn == 'fast_matvec':
            f = lambda: A.fast_matvec(x, eps=eps, initial=y0, use_cpp=False, **kw)
        else:
            f = lambda: torchtt.amen_mv(A, x, eps=eps, x0=y0)
        want_ttm, wM, wN = False, [], M
        nt = space.nontrivial(sA) or space.nontrivial(sx)
    elif fn == 'dmrg_hadamard':
        sx = space.tensor_struct(N, RA, dt, 'gauss')
        sy = space.tensor_struct(N, Rx, dt, 'gauss')
        x, cx = _mk(sx, 'x', c['fam'])
        y, cy = _mk(sy, 'y', c['fam'])
        exact = ref.contract(cx) * ref.contract(cy)
        y0 = _exact_guess(c['init'], lambda: x * y) if c['init'].startswith('exact') else _init_guess(c['init'], {'k': 't', 'N': N}, dt)
        ops = [x, y] + ([y0] if y0 is not None else [])
        f = lambda: torchtt.dmrg_hadamard(x, y, z0=y0, eps=eps, use_cpp=False, **kw)
        want_ttm, wM, wN = False, [], N
        nt = space.nontrivial(sx) or space.nontrivial(sy)
    else:
        K = list(PK[:d])
        for i in range(d):
            if N[i] == 1:
                K[i] = 1
        sA = space.operator_struct(M, K, RA, dt, 'gauss')
        sB = space.operator_struct(K, N, Rx, dt, 'gauss')
        A, cA = _mk(sA, 'A', c['fam'])
        B, cB = _mk(sB, 'B', c['fam'])
        exact = torch.tensordot(ref.contract(cA), ref.contract(cB), dims=(list(range(d, 2 * d)), list(range(d))))
        y0 = _init_guess(c['init'], {'k': 'm', 'M': M, 'N': N}, dt)
        ops = [A, B] + ([y0] if y0 is not None else [])
        f = lambda: torchtt.amen_mm(A, B, eps=eps, X0=y0)
        want_ttm, wM, wN = True, M, N
        nt = space.nontrivial(sA) or space.nontrivial(sB)
    torch.manual_seed(c['seed'])
    np.random.seed(c['seed'])
    res, e = call(f)
    if e is not None:
        return Outcome(key, nt, 'raises:' + exc_name(e), violations=[V(site + '.raises_' + exc_name(e), repr(e))])
    viol = []
    if not isinstance(res, TT):
        return Outcome(key, nt, 'type', violations=[V(site + '.not_a_TT', type(res).__name__)])
    try:
        ittm, M2, N2, R2 = ref.structure_of(res.cores)
    except ValueError as ex:
        return Outcome(key, nt, 'malformed', violations=[V(site + '.malformed_cores', ex)])
    if (ittm, M2, N2) != (want_ttm, list(wM), list(wN)):
        viol.append(V(site + '.shape', 'result ttm=%s M=%s N=%s expected M=%s N=%s' % (ittm, M2, N2, wM, wN)))
    else:
        got = ref.contract(res.cores)
        ne = float(torch.linalg.norm(exact))
        err = float(torch.linalg.norm(got - exact.to(got.dtype)))
        tol = 10 * eps * ne + CR * u * ne
        if not (err <= tol):
            viol.append(V(site + '.error_exceeds_10eps' + ('.init_' + c['init'] if c['init'] != 'none' else ''),
                          'err/|exact| = %.3e eps = %.1e seed=%d' % (err / max(ne, 1e-300), eps, c['seed'])))
    return Outcome(key, nt, 'R=%s' % R2, violations=viol)
