"""
C06 — operations never change the value of their operands.

E2: the same explicit-state search as C05 with the immutability monitor: a frozen record (core values, torch version
counters, ranks, shape, dtype, number of cores) of every live object is compared after every transition; only the receiver
of a successful set_core / reduce_dims / grad.watch / grad.unwatch may change.  Views produced by slicing, transpose, conj,
sum, to_ttm, detach stay views under replay, so a write through a result into its source is seen on the source.
"""
from .. import explore
from . import c05

PROPERTY = 'C06'
CHUNK = 1
RULE = c05.RULE.replace('the monitor', 'the immutability monitor')
ASSUMPTIONS = c05.ASSUMPTIONS + ['every public entry point appears as an event with each TT argument position (operands and optional '
                                 'initial guesses) filled from the pool']
BOUNDS = c05.BOUNDS
CASE_BUDGET = c05.CASE_BUDGET
cases = c05.cases


def run_case(c):
    return c05.run_case(c, ('imm',), 'imm.')
