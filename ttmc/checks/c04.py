"""
C04 — TT-matrix algebra equals dense linear-operator algebra.

E1: complete enumeration of rectangular operator / vector / operator structures (row, column and inner sizes
pairwise distinct per position, every singleton substitution, rank profiles, batch ranks 0..3) x all operator
operations, compared with the dense operator expression on the M1..Md x N1..Nd reconstruction.
"""
import itertools
import numpy as np
import torch
import torchtt
from .. import ref, space, values
from ..core import Outcome
from ..lib import build, call, check_tt, V, exc_name, TT

PROPERTY = 'C04'
CHUNK = 64
RULE = ('every (operation, operand structures) inside the bounds executed once, compared with the dense operator '
        'expression; distinct = canonical (op, structures, dtype); non-trivial = an operand with interior rank>1 and a mode>1')
ASSUMPTIONS = ['A@dense: the dense operand has the operator dtype']

PM = (2, 3, 4, 2)
PN = (3, 4, 2, 3)
PK = (4, 2, 3, 4)
DTF = [('f64', 'int'), ('f64', 'gauss'), ('c128', 'int')]
BATCH = (2, 3, 2)


def BOUNDS(tier):
    return {'max_order': 3 if tier == 'quick' else 4, 'sizes': 'M_i in {1,%s} N_i in {1,%s} K_i in {1,%s}' % (PM, PN, PK),
            'batch_ranks': '0..3', 'dtypes': DTF,
            'uniform': 'square n^d operators (n=2,3 at order 3; n=2 at order 4) with uniform ranks for both operands'}


def _mn(d, pm, pn, maxones):
    """all (M,N) with every M_i, N_i independently replaced by 1 (at most maxones substitutions)"""
    out = []
    for mask in itertools.product((0, 1), repeat=2 * d):
        if sum(mask) > maxones:
            continue
        M = [1 if mask[i] else pm[i] for i in range(d)]
        N = [1 if mask[d + i] else pn[i] for i in range(d)]
        out.append((M, N))
    out.sort(key=lambda t: t[0].count(1) + t[1].count(1))
    return out


def cases(tier, seed):
    D = 3 if tier == 'quick' else 4
    salt = seed % 7
    for d in range(1, D + 1):
        maxones = 2 * d if d <= 2 else (2 if tier == 'quick' or d == 4 else 3)
        rA = space.ranks_binary(d) if d <= 3 else space.ranks_dev(d, maxdev=1)
        rB = space.ranks_binary(d, offset=1) if d <= 3 else space.ranks_dev(d, offset=1, maxdev=1)
        for M, N in _mn(d, PM, PN, maxones):
            for RA in rA:
                for dt, fam in DTF:
                    base = {'M': M, 'N': N, 'RA': RA, 'dt': dt, 'fam': fam, 's': salt}
                    for op in ('t', 'neg', 'full', 'A+s', 'A-s', 's-A', 'A*s', 's*A', 'A/s', 'A*0'):
                        yield dict(base, op=op)
                    for op in ('A+s', 's+A', 'A-s', 's-A', 'A*s', 's*A', 'A/s'):
                        yield dict(base, op=op, sk='inexact')       # 0.1: not representable in float32
                    for nb in range(0, 4):
                        yield dict(base, op='A@dense', nb=nb)
                    for RB in rB:
                        for op in ('A@x', 'x@A', 'A+B', 'A-B', 'A*B'):
                            yield dict(base, op=op, RB=RB)
                        # A@B with inner sizes K: A is M x K, B is K x N
                        for kmask in itertools.product((0, 1), repeat=d):
                            if sum(kmask) > 1 and d > 2:
                                continue
                            K = [1 if m else PK[i] for i, m in enumerate(kmask)]
                            yield dict(base, op='A@B', RB=RB, K=K)
    # uniform structures (square n x n modes, all interior ranks equal, for both operands): every interior core of an operand and of
    # the result has ONE shape - never produced by the distinct-size alphabet above (anything keyed or cached by shape collides)
    for d in (3, 4):
        for n in (2, 3):
            if d == 4 and n == 3:
                continue
            for r in (1, 2):
                for q in (2, 3):
                    RA, RB = [1] + [r] * (d - 1) + [1], [1] + [q] * (d - 1) + [1]
                    for dt, fam in DTF[:2]:
                        base = {'M': [n] * d, 'N': [n] * d, 'RA': RA, 'dt': dt, 'fam': fam, 's': salt}
                        for op in ('t', 'A*s', 'A/s', 'A+s'):
                            yield dict(base, op=op)
                        for op in ('A@x', 'x@A', 'A+B', 'A-B', 'A*B'):
                            yield dict(base, op=op, RB=RB)
                        yield dict(base, op='A@B', RB=RB, K=[n] * d)
    for d1 in range(1, 3):
        for d2 in range(1, 3):
            for M1, N1 in _mn(d1, PM, PN, 1):
                for M2, N2 in _mn(d2, PK, PM, 1):
                    for R1 in space.ranks_dev(d1, maxdev=0):
                        for R2 in space.ranks_dev(d2, offset=1, maxdev=0):
                            for op in ('A**B', 'kron'):
                                yield {'op': op, 'M': M1, 'N': N1, 'RA': R1, 'M2': M2, 'N2': N2, 'RB': R2, 'dt': 'f64', 'fam': 'int', 's': salt}


def _t(dense, d):
    return dense.permute(list(range(d, 2 * d)) + list(range(d)))


def run_case(c):
    op, dt, fam = c['op'], c['dt'], c['fam']
    dtype = ref.DT[dt]
    M, N, RA = c['M'], c['N'], c['RA']
    d = len(N)
    exact = fam.startswith('int')
    nt_flag = False
    if op == 'A@B':
        sA = space.operator_struct(M, c['K'], RA, dt, fam)
    else:
        sA = space.operator_struct(M, N, RA, dt, fam)
    A, cA = build(sA, 'A', c['s'])
    dA = ref.contract(cA)
    bA = ref.absbound(cA)
    key = '%s|%s' % (op, space.skey(sA))
    nt = space.nontrivial(sA)
    site = 'ttm.' + op.replace('@', 'matmul_').replace('+', 'add').replace('-', 'sub').replace('*', 'mul').replace('/', 'div') + ('.inexact_scalar' if c.get('sk') == 'inexact' else '')
    R_expect = None
    ttm_res = True
    if op == 't':
        fn, want, bound = (lambda: A.t()), _t(dA, d), bA
        R_expect = RA
    elif op == 'neg':
        fn, want, bound = (lambda: -A), -dA, bA
        R_expect = RA
    elif op == 'full':
        f, e = call(A.full)
        viol = []
        if e is not None:
            viol.append(V('ttm.full.raises_' + exc_name(e), repr(e)))
        elif tuple(f.shape) != tuple(dA.shape):
            viol.append(V('ttm.full.shape', '%s vs %s' % (list(f.shape), list(dA.shape))))
        elif f.dtype != dtype:
            viol.append(V('ttm.full.dtype', str(f.dtype)))
        elif not (torch.equal(ref.up(f), dA) if exact else ref.close(ref.up(f), dA, 1e3 * ref.unit_roundoff(dtype) * bA)):
            viol.append(V('ttm.full.value', 'max diff %.3e' % ref.maxdiff(ref.up(f), dA)))
        return Outcome(key, nt, 'full', violations=viol)
    elif op in ('A+s', 's+A', 'A-s', 's-A', 'A*s', 's*A', 'A/s', 'A*0'):
        s = 2.0
        if op == 'A*0':
            s = 0
        if c.get('sk') == 'inexact':
            s = 0.1
            exact = False
            key += '|inexact'
        fn = {'A+s': lambda: A + s, 's+A': lambda: s + A, 'A-s': lambda: A - s, 's-A': lambda: s - A, 'A*s': lambda: A * s, 's*A': lambda: s * A,
              'A/s': lambda: A / s, 'A*0': lambda: A * s}[op]
        want = {'A+s': lambda: dA + s, 's+A': lambda: s + dA, 'A-s': lambda: dA - s, 's-A': lambda: s - dA, 'A*s': lambda: dA * s, 's*A': lambda: s * dA,
                'A/s': lambda: dA / s, 'A*0': lambda: dA * 0}[op]()
        bound = 2 * bA + 2
    elif op == 'A@dense':
        nb = c['nb']
        shape = list(BATCH[:nb]) + N
        x = values.dense_tensor(shape, dt, 'int' if exact else 'gauss', c['s'], 'x')
        xd = ref.up(x)
        want = torch.tensordot(xd, dA, dims=(list(range(nb, nb + d)), list(range(d, 2 * d))))
        res, e = call(lambda: A @ x)
        key += '|nb%d' % nb
        if e is not None:
            return Outcome(key, nt, 'raises', violations=[V(site + '.raises_' + exc_name(e), repr(e))])
        viol = []
        if not torch.is_tensor(res):
            viol.append(V(site + '.not_a_tensor', type(res).__name__))
        elif tuple(res.shape) != tuple(want.shape):
            viol.append(V(site + '.shape', 'result %s, dense model %s (batch rank %d)' % (list(res.shape), list(want.shape), nb)))
        else:
            bound = bA * 2.0 * max(1, int(np.prod(N))) * 2
            if res.dtype != dtype:
                viol.append(V(site + '.dtype', str(res.dtype)))
            ok = torch.equal(ref.up(res), want) if (exact and bound < 2 ** 52) else ref.close(ref.up(res), want, 1e3 * ref.unit_roundoff(dtype) * bound)
            if not ok:
                viol.append(V(site + '.value', 'max diff %.3e' % ref.maxdiff(ref.up(res), want)))
        return Outcome(key, nt, 'dense', violations=viol)
    elif op in ('A@x', 'x@A'):
        RB = c['RB']
        sx = space.tensor_struct(N if op == 'A@x' else M, RB, dt, fam)
        x, cx = build(sx, 'x', c['s'])
        dx = ref.contract(cx)
        key += '|' + space.skey(sx)
        nt = nt or space.nontrivial(sx)
        if op == 'A@x':
            fn = lambda: A @ x
            want = torch.tensordot(dA, dx, dims=(list(range(d, 2 * d)), list(range(d))))
        else:
            fn = lambda: x @ A
            want = torch.tensordot(dx, dA, dims=(list(range(d)), list(range(d))))
        bound = bA * ref.absbound(cx) * max(1, int(np.prod(N if op == 'A@x' else M)))
        R_expect = [a * b for a, b in zip(RA, RB)]
        ttm_res = False
    elif op in ('A+B', 'A-B', 'A*B'):
        RB = c['RB']
        sB = space.operator_struct(M, N, RB, dt, fam)
        B, cB = build(sB, 'B', c['s'])
        dB = ref.contract(cB)
        key += '|' + space.skey(sB)
        nt = nt or space.nontrivial(sB)
        fn = {'A+B': lambda: A + B, 'A-B': lambda: A - B, 'A*B': lambda: A * B}[op]
        want = {'A+B': dA + dB, 'A-B': dA - dB, 'A*B': dA * dB}[op]
        bB = ref.absbound(cB)
        bound = bA * bB if op == 'A*B' else bA + bB
        R_expect = [a * b for a, b in zip(RA, RB)] if op == 'A*B' else [1] + [a + b for a, b in zip(RA[1:-1], RB[1:-1])] + [1]
    elif op == 'A@B':
        RB, K = c['RB'], c['K']
        sB = space.operator_struct(K, N, RB, dt, fam)
        B, cB = build(sB, 'B', c['s'])
        dB = ref.contract(cB)
        key += '|' + space.skey(sB)
        nt = nt or space.nontrivial(sB)
        fn = lambda: A @ B
        want = torch.tensordot(dA, dB, dims=(list(range(d, 2 * d)), list(range(d))))
        bound = bA * ref.absbound(cB) * max(1, int(np.prod(K)))
        R_expect = [a * b for a, b in zip(RA, RB)]
    elif op in ('A**B', 'kron'):
        sB = space.operator_struct(c['M2'], c['N2'], c['RB'], dt, fam)
        B, cB = build(sB, 'B', c['s'])
        dB = ref.contract(cB)
        key += '|' + space.skey(sB)
        d2 = len(c['N2'])
        fn = (lambda: A ** B) if op == 'A**B' else (lambda: torchtt.kron(A, B))
        w = torch.tensordot(dA, dB, dims=0)          # M1 N1 M2 N2
        want = w.permute(list(range(d)) + list(range(2 * d, 2 * d + d2)) + list(range(d, 2 * d)) + list(range(2 * d + d2, 2 * d + 2 * d2)))
        bound = bA * ref.absbound(cB)
        R_expect = RA + c['RB'][1:]
    else:
        raise KeyError(op)
    res, e = call(fn)
    if e is not None:
        return Outcome(key, nt, 'raises:' + exc_name(e), violations=[V(site + '.raises_' + exc_name(e), repr(e))])
    ex = exact and op != 'A/s' or (exact and op == 'A/s')
    viol = check_tt(res, want, site, dtype, ex, bound, ttm=ttm_res)
    if isinstance(res, TT) and not viol and R_expect is not None and [int(r) for r in res.R] != list(R_expect):
        viol.append(V(site + '.rank_law', 'ranks %s, documented %s' % (res.R, R_expect)))
    return Outcome(key, nt, 'R=%s' % (res.R if isinstance(res, TT) else '?'), violations=viol)


# ------------------------------------------------------------------------------------------------ second tier: histories
# every history of depth 2 (3 thorough) whose last event belongs to this property, on the explicit-state explorer; the last
# event is compared with its dense definition on the operands as they are in that state (ttmc/history_tier.py)
from .. import history_tier as _ht

_cases_e1, _run_case_e1 = cases, run_case


def cases(tier, seed):
    yield from _cases_e1(tier, seed)
    yield from _ht.cases(PROPERTY, tier)


def run_case(c):
    if c.get('g') in ('E2', 'E2R'):
        return _ht.run_case(PROPERTY, c)
    return _run_case_e1(c)
