"""
C14 — cross approximation recovers low-rank data and samples only valid indices.

E1 x finite menus + call monitor: shapes (incl. tiny / uneven modes, modes smaller than rank+kick) x targets x eps x seeds x
start tensor; EVERY call of the user function is monitored for well-formed arguments.
"""
import itertools
import numpy as np
import torch
import torchtt
from .. import ref, space, values
from ..core import Outcome
from ..lib import build, call, V, exc_name, TT

PROPERTY = 'C14'
CHUNK = 4
RULE = ('every (routine, shape, target, eps, seed, start tensor) inside the bounds; every callback invocation is monitored; '
        'distinct = that tuple; non-trivial = target TT rank > 1')
ASSUMPTIONS = ['acceptance |res-exact| <= 100*eps*|exact|', 'finite seed menu', 'multivariate interpolation: one argument tensor per mode (meshgrid), as documented']


def BOUNDS(tier):
    return {'orders': [2, 3, 4] if tier == 'quick' else [2, 3, 4, 5], 'sizes': '{2..6} quick, to 20 thorough, uniform and non-uniform',
            'targets': ['exact TT rank 1..4', '1/(2+sum of indices)'], 'eps': [1e-3, 1e-6, 1e-10], 'seeds': 2 if tier == 'quick' else 4,
            'start': ['none', 'rank1', 'rank3']}


def _shapes(tier):
    out = []
    for d in (2, 3):
        for N in itertools.product((2, 3, 4), repeat=d):
            out.append(list(N))
    out += [[5, 6], [6, 2], [2, 6], [6, 5, 4], [2, 5, 3], [3, 2, 6], [2, 2, 2, 2], [3, 2, 3, 2], [4, 3, 2, 5], [2, 3, 4, 3], [5, 5, 5], [6, 6, 6, 6][:4]]
    if tier == 'thorough':
        out += [[20, 20], [12, 7, 9], [20, 3, 20], [8, 8, 8, 8], [2, 2, 2, 2, 2], [3, 4, 3, 4, 3], [10, 2, 10, 2], [15, 15, 15]]
    return out


def cases(tier, seed):
    S = 2 if tier == 'quick' else 4
    for N in _shapes(tier):
        d = len(N)
        for tgt in ('rank1', 'rank2', 'rank3', 'rank4', 'smooth'):
            for eps in (1e-3, 1e-6, 1e-10):
                for sd in range(S):
                    for start in ('none', 'rank1', 'rank3'):
                        if start != 'none' and (sd > 0 or eps != 1e-6):
                            continue
                        if tier == 'quick' and d == 4 and (eps == 1e-3 or tgt in ('rank1', 'rank3')):
                            continue
                        yield {'fn': 'dmrg_cross', 'N': N, 'tgt': tgt, 'eps': eps, 'seed': sd, 'start': start}
        for f in ('square', 'inv'):
            for rx in (1, 2):
                for eps in (1e-6, 1e-10):
                    for sd in range(S):
                        for start in ('none', 'rank3'):
                            if start != 'none' and sd > 0:
                                continue
                            yield {'fn': 'interp_uni', 'N': N, 'f': f, 'rx': rx, 'eps': eps, 'seed': sd, 'start': start}
        for eps in (1e-6, 1e-10):
            for sd in range(S):
                yield {'fn': 'interp_multi', 'N': N, 'eps': eps, 'seed': sd, 'start': 'none'}
    # two calls in ONE process with different functions / shapes: the second must be as good as a first one (values cached
    # across calls, module-level scratch state, default arguments that are mutated)
    seqs = [([3, 4, 3], 'rank2', [3, 4, 3], 'smooth'), ([3, 4, 3], 'smooth', [4, 3, 4], 'rank3'), ([4, 4], 'rank2', [4, 4], 'rank3'),
            ([2, 3, 4, 3], 'rank2', [3, 2, 6], 'rank2'), ([5, 5, 5], 'rank3', [5, 5, 5], 'rank1')]
    for N1, t1, N2, t2 in seqs:
        for eps in (1e-6, 1e-10):
            yield {'fn': 'cross_twice', 'N': N2, 'tgt': t2, 'N1': N1, 'tgt1': t1, 'eps': eps, 'seed': 0, 'start': 'none'}
            yield {'fn': 'interp_twice', 'N': N2, 'f': 'square', 'N1': N1, 'f1': 'inv', 'rx': 2, 'eps': eps, 'seed': 0, 'start': 'none'}
    for n in (1, 3, 7):
        yield {'fn': 'interp_uni', 'N': [n], 'f': 'square', 'rx': 1, 'eps': 1e-8, 'seed': 0, 'start': 'none'}
        yield {'fn': 'interp_multi', 'N': [n], 'eps': 1e-8, 'seed': 0, 'start': 'none'}


def _target(N, tgt):
    d = len(N)
    if tgt == 'smooth':
        grids = torch.meshgrid(*[torch.arange(n, dtype=torch.float64) for n in N], indexing='ij')
        return 1.0 / (2.0 + sum(grids)), 3
    r = int(tgt[4:])
    R = [1] + [min(r, int(np.prod(N[:k + 1])), int(np.prod(N[k + 1:]))) for k in range(d - 1)] + [1]
    cs = values.cores_for(space.tensor_struct(N, R, 'f64', 'gauss'), 'tgt', 0)
    return ref.contract(cs), r


def _start(kind, N):
    if kind == 'none':
        return None
    d = len(N)
    r = {'rank1': 1, 'rank3': 3}[kind]
    return build(space.tensor_struct(N, [1] + [r] * (d - 1) + [1], 'f64', 'gauss'), 'start', 0)[0]


def run_case(c):
    if c['fn'] in ('cross_twice', 'interp_twice'):
        # first call: its own result is checked by the single-call cases; here it only has to have happened
        first = dict(c, fn='dmrg_cross' if c['fn'] == 'cross_twice' else 'interp_uni', N=c['N1'])
        if c['fn'] == 'cross_twice':
            first['tgt'] = c['tgt1']
        else:
            first['f'] = c['f1']
        r1 = run_case({k: v for k, v in first.items() if k not in ('N1', 'tgt1', 'f1')})
        second = {k: v for k, v in dict(c, fn=first['fn']).items() if k not in ('N1', 'tgt1', 'f1')}
        r2 = run_case(second)
        viol = [dict(v, cls=v['cls'].replace('dmrg_cross', 'dmrg_cross.second_call').replace('function_interpolate', 'function_interpolate.second_call')) for v in r2['violations']]
        return Outcome('twice|' + '|'.join('%s=%s' % (k, c[k]) for k in sorted(c)), True, 'second:' + r2['outcome'], transitions=2,
                       compared=r1['compared'] + r2['compared'], violations=viol)
    fn, N, eps = c['fn'], c['N'], c['eps']
    d = len(N)
    key = 'cross|' + '|'.join('%s=%s' % (k, c[k]) for k in sorted(c))
    small = any(n < 4 for n in N)
    bad = []       # monitor violations
    ncalls = [0]
    torch.manual_seed(c['seed'])
    np.random.seed(c['seed'])
    start = _start(c['start'], N)
    if fn == 'dmrg_cross':
        T, r = _target(N, c['tgt'])
        nt = r > 1

        def f(I):
            ncalls[0] += 1
            if not torch.is_tensor(I) or I.dim() != 2 or I.shape[1] != d:
                bad.append('argument is not an M x %d matrix: %s' % (d, getattr(I, 'shape', type(I))))
                raise IndexError('monitor: malformed index matrix')
            if I.dtype not in (torch.int64, torch.int32):
                bad.append('index dtype %s' % I.dtype)
            for k in range(d):
                if I.shape[0] and (int(I[:, k].min()) < 0 or int(I[:, k].max()) >= N[k]):
                    bad.append('column %d out of [0,%d): min %d max %d' % (k, N[k], int(I[:, k].min()), int(I[:, k].max())))
                    raise IndexError('monitor: index out of range')
            return T[tuple(I[:, k].long() for k in range(d))]
        site = 'dmrg_cross'
        res, e = call(lambda: torchtt.interpolate.dmrg_cross(f, list(N), eps=eps, x_start=start))
        exact = T
    elif fn == 'interp_uni':
        sx = space.tensor_struct(N, [1] + [c['rx']] * (d - 1) + [1], 'f64', 'gauss')
        cz = values.cores_for(sx, 'z', 0)
        zd = ref.contract(cz)
        cz[0] = cz[0] * (2.0 / max(float(zd.abs().max()), 1e-300))
        x = torchtt.TT([cc.clone() for cc in cz]) + 3.0
        xd = ref.contract(x.cores)
        allv = torch.sort(xd.reshape(-1)).values
        nt = c['rx'] > 1
        g = (lambda t: t * t) if c['f'] == 'square' else (lambda t: 1.0 / t)

        def f(t):
            ncalls[0] += 1
            if not torch.is_tensor(t):
                bad.append('argument type %s' % type(t).__name__)
                return g(t)
            v = t.reshape(-1).to(torch.float64)
            pos = torch.searchsorted(allv, v).clamp(1, allv.numel() - 1) if allv.numel() > 1 else torch.zeros_like(v, dtype=torch.int64)
            if allv.numel() > 1:
                dist = torch.minimum((allv[pos] - v).abs(), (allv[pos - 1] - v).abs())
            else:
                dist = (allv[0] - v).abs()
            if v.numel() and float(dist.max()) > 1e-9 * float(allv.abs().max()):
                bad.append('a value handed to f is not an entry of x (distance %.3e)' % float(dist.max()))
            return g(t)
        site = 'function_interpolate.univariate'
        res, e = call(lambda: torchtt.interpolate.function_interpolate(f, x, eps=eps, start_tens=start))
        exact = g(xd)
    else:
        vecs = [torch.linspace(0.5, 1.5 + 0.25 * k, n, dtype=torch.float64) for k, n in enumerate(N)]
        xs = torchtt.meshgrid([v.clone() for v in vecs])
        nt = True

        def f(X):
            ncalls[0] += 1
            if not torch.is_tensor(X) or X.dim() != 2 or X.shape[1] != d:
                bad.append('argument is not an M x %d matrix: %s' % (d, getattr(X, 'shape', type(X))))
                raise IndexError('monitor: malformed value matrix')
            for k in range(d):
                dist = (X[:, k:k + 1] - vecs[k][None, :]).abs().min(dim=1).values
                if X.shape[0] and float(dist.max()) > 1e-9:
                    bad.append('column %d holds a value that is not an entry of argument %d (distance %.3e)' % (k, k, float(dist.max())))
            return 1.0 / (2.0 + X.sum(dim=1))
        site = 'function_interpolate.multivariate'
        res, e = call(lambda: torchtt.interpolate.function_interpolate(f, xs, eps=eps, start_tens=start))
        grids = torch.meshgrid(*vecs, indexing='ij')
        exact = 1.0 / (2.0 + sum(grids))
    viol = []
    if bad:
        viol.append(V(site + '.callback_argument_invalid', bad[0]))
    tag = ''
    if e is not None:
        if not bad:
            viol.append(V(site + '.raises_' + exc_name(e) + ('.small_modes' if small else ''), repr(e)[:300]))
        return Outcome(key, nt, 'raises:' + exc_name(e), transitions=1, compared=ncalls[0], violations=viol)
    if not isinstance(res, TT) or res.is_ttm or list(res.N) != list(N):
        viol.append(V(site + '.shape', '%s N=%s' % (type(res).__name__, getattr(res, 'N', None))))
        return Outcome(key, nt, 'shape', compared=ncalls[0], violations=viol)
    try:
        got = ref.contract(res.cores)
    except ValueError as ex:
        viol.append(V(site + '.malformed_cores', ex))
        return Outcome(key, nt, 'malformed', compared=ncalls[0], violations=viol)
    ne = float(torch.linalg.norm(exact))
    rel = float(torch.linalg.norm(got - exact)) / max(ne, 1e-300)
    if not (rel <= 100 * eps):
        viol.append(V(site + '.error_exceeds_100eps' + ('.small_modes' if small else ''), 'rel err %.3e eps %.1e (N=%s)' % (rel, eps, N)))
    return Outcome(key, nt, 'rel/eps=1e%d' % int(np.floor(np.log10(max(rel / eps, 1e-30)))), transitions=1, compared=max(ncalls[0], 1),
                   violations=viol, extra={'callback_calls': ncalls[0]})
