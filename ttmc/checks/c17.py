"""
C17 — the compiled backend obeys the same contracts as the Python implementation.

The extension is (re)built from /repo's working tree (ttmc/cppbuild.py), put first on sys.path of the worker processes,
and the C11 fast_matvec space and the C12 amen_solve space (reduced) are run through BOTH backends side by side.  Every
case runs in a forked child so that a crash of the compiled code is attributed to the case in flight.
"""
import os
import sys
import pickle
import signal
import itertools

if os.environ.get('TTMC_CPP_DIR'):
    sys.path.insert(0, os.environ['TTMC_CPP_DIR'])

import numpy as np
import torch
import torchtt
from .. import ref, space, values, cppbuild
from ..core import Outcome, VERIF
from ..lib import build, call, V, exc_name, TT
from . import c11, c12

PROPERTY = 'C17'
CHUNK = 4
RULE = ('every (routine, operand structure / solver configuration, eps, seed, initial guess, preconditioner) inside the bounds, run '
        'through both backends; distinct = that tuple; non-trivial = operator rank > 1 or operand rank > 1')
ASSUMPTIONS = ['the extension is built with -std=c++20 and -lopenblas instead of setup.py\'s flags (which cannot build against the installed torch)',
               'LP64 OpenBLAS called through the sources\' int64_t* prototypes (little-endian, sizes explored are small)',
               'acceptance bounds of C11 (10*eps) and C12 (100*eps); mutual difference reported against the sum of the two bounds',
               'finite seed menu; each case runs in a forked child process']


def BOUNDS(tier):
    return {'fast_matvec': 'C11 structures, f64, eps menu, seeds 0..1 (0..3 thorough), initial guess none/rank1/rank5',
            'amen_solve': 'C12 configurations with <= 2 (3 thorough) deviations from the default, both backends, preconditioner None/c/r, x0'}


def cases(tier, seed):
    repo = os.environ.get('TTMC_REPO', '/repo')
    d, log = cppbuild.build(repo, VERIF)            # raises -> harness error
    os.environ['TTMC_CPP_DIR'] = d                  # inherited by the worker processes spawned after this point
    S = 2 if tier == 'quick' else 4
    for M, N in c11._structs(tier):
        dd = len(N)
        for ra, rx in ((1, 1), (2, 3), (4, 3)):
            if dd == 1 and (ra, rx) != (1, 1):
                continue
            for fam in ('gauss', 'decay'):
                if fam == 'decay' and (dd < 2 or (ra, rx) != (2, 3)):
                    continue
                for eps in c11.EPS:
                    for sd in range(S):
                        for init in ('none', 'rank1', 'rank5'):
                            if init != 'none' and sd > 0:
                                continue
                            yield {'kind': 'mv', 'fn': 'fast_matvec', 'M': M, 'N': N, 'ra': ra, 'rx': rx, 'fam': fam, 'dt': 'f64', 'eps': eps, 'seed': sd, 'init': init}
    # full product preconditioner x local path x class x eps on systems whose local problems are large enough for the
    # (preconditioned) iterative path to matter
    for sizes in ('546', '263'):
        for cls in ('lap', 'dd', 'cd'):
            for prec in (None, 'c', 'r'):
                for solver in ('gmres', 'direct'):
                    for eps in (1e-6, 1e-10):
                        for x0 in ('none', 'rank2'):
                            if x0 == 'rank2' and (eps == 1e-10 or sizes == '263'):
                                continue
                            yield {'kind': 'solve', 'order': 3, 'sizes': sizes, 'cls': cls, 'opr': 2, 'rhs': 2, 'eps': eps, 'prec': prec, 'solver': solver, 'x0': x0, 'seed': 0}
    for cfg in c12._configs(2 if tier == 'quick' else 3):
        if cfg['solver'] == 'bicgstab':
            continue      # a Python-only local solver (the compiled solver has GMRES only); C12 covers it
        yield dict(cfg, kind='solve')


def _run_mv(c):
    M, N, eps = c['M'], c['N'], c['eps']
    d = len(N)
    RA = [1] + [c['ra']] * (d - 1) + [1]
    Rx = [1] + [c['rx']] * (d - 1) + [1]
    A, cA = c11._mk(space.operator_struct(M, N, RA, 'f64', 'gauss'), 'A', c['fam'])
    x, cx = c11._mk(space.tensor_struct(N, Rx, 'f64', 'gauss'), 'x', c['fam'])
    exact = torch.tensordot(ref.contract(cA), ref.contract(cx), dims=(list(range(d, 2 * d)), list(range(d))))
    ne = float(torch.linalg.norm(exact))
    site = 'fast_matvec' + ('.order1' if d == 1 else '')
    out = {}
    viol = []
    for backend in ('python', 'cpp'):
        y0 = c11._init_guess(c['init'], {'k': 't', 'N': M}, 'f64')
        torch.manual_seed(c['seed'])
        np.random.seed(c['seed'])
        res, e = call(lambda: A.fast_matvec(x, eps=eps, initial=y0, use_cpp=(backend == 'cpp')))
        if e is not None:
            out[backend] = ('raises', exc_name(e), repr(e)[:200])
            continue
        if not isinstance(res, TT) or res.is_ttm or list(res.N) != list(M):
            out[backend] = ('shape', str(getattr(res, 'N', type(res))), '')
            viol.append(V('%s.%s.shape' % (site, backend), out[backend][1]))
            continue
        try:
            got = ref.contract(res.cores)
        except ValueError as ex:
            viol.append(V('%s.%s.malformed_cores' % (site, backend), ex))
            out[backend] = ('malformed', '', '')
            continue
        err = float(torch.linalg.norm(got - exact))
        out[backend] = ('ok', got, err)
        if not (err <= 10 * eps * ne + 1e4 * 2.0 ** -53 * ne):
            viol.append(V('%s.%s.error_exceeds_10eps' % (site, backend), 'err/|exact| %.3e eps %.1e seed %d init %s' % (err / max(ne, 1e-300), eps, c['seed'], c['init'])))
    if (out['python'][0] == 'raises') != (out['cpp'][0] == 'raises'):
        viol.append(V(site + '.backends_accept_different_inputs', 'python: %s  cpp: %s' % (out['python'][:2], out['cpp'][:2])))
    elif out['python'][0] == 'raises':
        viol.append(V(site + '.both_raise_' + out['python'][1], out['python'][2]))
    if out['python'][0] == 'ok' and out['cpp'][0] == 'ok':
        diff = float(torch.linalg.norm(out['python'][1] - out['cpp'][1]))
        if not (diff <= 20 * eps * ne + 2e4 * 2.0 ** -53 * ne):
            viol.append(V(site + '.backends_disagree', 'diff/|exact| %.3e eps %.1e' % (diff / max(ne, 1e-300), eps)))
    return Outcome('mv|' + '|'.join('%s=%s' % (k, c[k]) for k in sorted(c)), c['ra'] > 1 or c['rx'] > 1, '%s/%s' % (out['python'][0], out['cpp'][0]),
                   transitions=2, compared=2, violations=viol)


def _run_solve(cfg):
    cfg = {k: v for k, v in cfg.items() if k != 'kind'}
    A, b, x0, N = c12.make_system(cfg)
    n = int(np.prod(N))
    Ad = ref.contract(A.cores).reshape(n, n)
    bd = ref.contract(b.cores).reshape(n)
    nb = float(torch.linalg.norm(bd))
    eps = cfg['eps']
    site = 'amen_solve.%s.prec_%s' % (cfg['cls'], cfg['prec'])
    out = {}
    viol = []
    for backend in ('python', 'cpp'):
        kw = {'eps': eps, 'preconditioner': cfg['prec'], 'use_cpp': backend == 'cpp'}
        if cfg['x0'] != 'none':
            kw['x0'] = build(space.tensor_struct(N, [1] + [int(cfg['x0'][4:])] * (len(N) - 1) + [1], 'f64', 'gauss'), 'x0', 0)[0]
        if cfg['solver'] == 'gmres':
            kw.update(max_full=0, local_solver=1)
        elif cfg['solver'] == 'bicgstab':
            kw.update(max_full=0, local_solver=2)
        torch.manual_seed(cfg['seed'])
        np.random.seed(cfg['seed'])
        res, e = call(lambda: torchtt.solvers.amen_solve(A, b, **kw))
        if e is not None:
            out[backend] = ('raises', exc_name(e), repr(e)[:200])
            continue
        if not isinstance(res, TT) or res.is_ttm or list(res.N) != N:
            out[backend] = ('shape', '', '')
            viol.append(V('%s.%s.shape' % (site, backend), str(getattr(res, 'N', type(res)))))
            continue
        try:
            xd = ref.contract(res.cores).reshape(n)
        except ValueError as ex:
            viol.append(V('%s.%s.malformed_cores' % (site, backend), ex))
            out[backend] = ('malformed', '', '')
            continue
        rel = float(torch.linalg.norm(Ad @ xd - bd)) / nb
        out[backend] = ('ok', xd, rel)
        if not (rel <= 100 * eps):
            viol.append(V('%s.%s.residual_exceeds_100eps' % (site, backend), 'residual %.3e eps %.1e cfg %s' % (rel, eps, cfg)))
    if (out['python'][0] == 'raises') != (out['cpp'][0] == 'raises'):
        viol.append(V(site + '.backends_accept_different_inputs', 'python: %s  cpp: %s' % (out['python'][:3], out['cpp'][:3])))
    elif out['python'][0] == 'raises':
        viol.append(V(site + '.both_raise_' + out['python'][1], out['python'][2]))
    extra = {}
    if out['python'][0] == 'ok' and out['cpp'][0] == 'ok':
        # || x1 - x2 || <= ||A^-1|| (|r1| + |r2|): report against the sum of the two residual bounds
        r12 = float(torch.linalg.norm(Ad @ (out['python'][1] - out['cpp'][1]))) / nb
        if not (r12 <= 200 * eps):
            viol.append(V(site + '.backends_disagree', '|A(x_py-x_cpp)|/|b| = %.3e eps %.1e' % (r12, eps)))
    return Outcome('solve|' + '|'.join('%s=%s' % (k, cfg[k]) for k in sorted(cfg)), cfg['opr'] > 1 or cfg['rhs'] > 1,
                   '%s/%s' % (out['python'][0], out['cpp'][0]), transitions=2, compared=2, violations=viol)


def run_case(c):
    if not torchtt.cpp_enabled():
        raise RuntimeError('the compiled backend is not importable in the worker (TTMC_CPP_DIR=%r)' % os.environ.get('TTMC_CPP_DIR'))
    r, w = os.pipe()
    pid = os.fork()
    if pid == 0:
        code = 0
        try:
            os.close(r)
            res = _run_mv(c) if c['kind'] == 'mv' else _run_solve(c)
            with os.fdopen(w, 'wb') as f:
                pickle.dump(dict(res), f)
        except BaseException as ex:
            try:
                with os.fdopen(w, 'wb') as f:
                    pickle.dump({'__harness__': repr(ex)}, f)
            except Exception:
                pass
            code = 3
        os._exit(code)
    os.close(w)
    with os.fdopen(r, 'rb') as f:
        data = f.read()
    _, status = os.waitpid(pid, 0)
    key = 'c17|' + '|'.join('%s=%s' % (k, c[k]) for k in sorted(c))
    if os.WIFSIGNALED(status):
        sig = os.WTERMSIG(status)
        site = 'fast_matvec' if c['kind'] == 'mv' else 'amen_solve'
        return Outcome(key, True, 'crash', transitions=2, compared=0,
                       violations=[V('%s.process_killed_by_signal_%d' % (site + ('.order1' if len(c.get('N', [0, 0])) == 1 else ''), sig),
                                     'the interpreter died (signal %d) while running this case' % sig)])
    res = pickle.loads(data)
    if '__harness__' in res:
        raise RuntimeError('checker failed in the child: ' + res['__harness__'])
    o = Outcome(res['key'], res['nontrivial'], res['outcome'], res['transitions'], res['compared'], res['violations'], res['extra'])
    return o
