"""
C18 — incompatible operands raise an error instead of returning a wrong tensor.

E1: every public entry point x every incompatibility class x small structures (mismatch at each position, against a
size-1 mode, order / kind / type mismatch, index / axis / mode out of range, element-count mismatch, bad rank lists,
mis-shaped cores).  Validity is decided by the dense reference model wherever a dense counterpart exists.

Level 1: the call must raise, must not return a TT / number / tensor, and must leave its operands unchanged.
Level 2: where the entry point's docstring documents the case, the exception must be one of the library's five types.
Arguments that the dense model accepts but the library does not document get the weaker oracle "raises, or agrees with
the dense result".
"""
import itertools
import numpy as np
import torch
import torchtt
from .. import ref, space, values
from ..core import Outcome
from ..lib import build, call, check_tt, V, exc_name, TT, snapshot, snapshot_diff

PROPERTY = 'C18'
CHUNK = 16
RULE = ('every (entry point, incompatibility class, position, structure) inside the bounds executed once; distinct = '
        'that tuple; non-trivial = the call reached the library with well-formed operands that are mutually incompatible')
ASSUMPTIONS = ['table of documented cases transcribed from the docstrings\' Raises sections',
               'elementwise_divide documents that it does not validate its inputs and is not enumerated']
LIB = {'ShapeMismatch', 'RankMismatch', 'IncompatibleTypes', 'InvalidArguments', 'NotImplementedError'}

TN = [2, 3, 4]
TR = [1, 2, 3, 1]
OM = [2, 3, 2]
ON = [3, 2, 4]
OR_ = [1, 2, 2, 1]


def BOUNDS(tier):
    return {'orders': '1..3', 'positions': 'every mode position', 'mismatch_kinds': ['n->n+1', 'n->1 (other side)', '1->n'],
            'bad_types': ['None', 'str', 'list', 'dense tensor', 'ndarray', 'TT where scalar expected'],
            'short_index_with_newaxis': 'addressed modes 0..d-1 (int / full slice / unit slice), 1..missing+1 None entries leading / trailing / interleaved, operand bonds rank 2 and rank 1'}


def _t(N, R=None, role='a', dt='f64'):
    d = len(N)
    R = R or ([1] + [2] * (d - 1) + [1])
    return build(space.tensor_struct(N, R, dt, 'int'), role)


def _m(M, N, R=None, role='A', dt='f64'):
    d = len(N)
    R = R or ([1] + [2] * (d - 1) + [1])
    return build(space.operator_struct(M, N, R, dt, 'int'), role)


BAD = ['none', 'str', 'list', 'dense', 'ndarray']


def _bad(kind):
    return {'none': None, 'str': 'a', 'list': [1.0, 2.0], 'dense': torch.ones(2, 3, dtype=torch.float64),
            'ndarray': np.ones((2, 3))}[kind]


def _mut(N, pos, how):
    N = list(N)
    if how == 'plus1':
        N[pos] = N[pos] + 1
    elif how == 'one':
        N[pos] = 1
    elif how == 'drop':
        N = N[:pos] + N[pos + 1:]
    elif how == 'extra':
        N = N[:pos] + [2] + N[pos:]
    return N


def cases(tier, seed):
    # ---- tensor o tensor arithmetic
    for d in (1, 2, 3):
        N = TN[:d]
        for op in ('+', '-', '*'):
            for pos in range(d):
                for how in ('plus1', 'first_one'):
                    yield {'ep': 'tt_binop', 'op': op, 'N': N, 'pos': pos, 'how': how}
            yield {'ep': 'tt_binop', 'op': op, 'N': N, 'pos': 0, 'how': 'longer'}
            yield {'ep': 'tt_binop', 'op': op, 'N': N, 'pos': 0, 'how': 'kind'}
            yield {'ep': 'tt_binop', 'op': op, 'N': N, 'pos': 0, 'how': 'kind_rev'}
            for b in BAD:
                yield {'ep': 'tt_binop_type', 'op': op, 'N': N, 'bad': b}
        for b in BAD + ['tt']:
            yield {'ep': 'div_type', 'N': N, 'bad': b, 'side': 'r'}
            if b not in ('tt', 'ndarray'):   # ndarray / x is dispatched elementwise by numpy itself, not by the library
                yield {'ep': 'div_type', 'N': N, 'bad': b, 'side': 'l'}
        for pos in range(d):
            for how in ('plus1', 'one'):
                yield {'ep': 'div_shape', 'N': N, 'pos': pos, 'how': how}
        yield {'ep': 'div_shape', 'N': N, 'pos': 0, 'how': 'kind'}
    # ---- operator o operator arithmetic
    for d in (1, 2, 3):
        M, N = OM[:d], ON[:d]
        for op in ('+', '-', '*'):
            for pos in range(d):
                for side in ('M', 'N'):
                    for how in ('plus1', 'one', 'first_one'):
                        yield {'ep': 'ttm_binop', 'op': op, 'M': M, 'N': N, 'pos': pos, 'side': side, 'how': how}
            yield {'ep': 'ttm_binop', 'op': op, 'M': M, 'N': N, 'pos': 0, 'side': 'M', 'how': 'order'}
        # ---- matmul family
        for form in ('A@x', 'x@A', 'A@B', 'A@dense', 'fast_matvec', 'amen_mv', 'amen_mm', 'amen_solve', 'bilinear_x', 'bilinear_y'):
            for pos in range(d):
                for how in ('plus1', 'one'):
                    yield {'ep': 'matmul', 'form': form, 'M': M, 'N': N, 'pos': pos, 'how': how}
            yield {'ep': 'matmul', 'form': form, 'M': M, 'N': N, 'pos': 0, 'how': 'order'}
        for form in ('x@y', 'A@none', 'A@str', 'fast_matvec_dense', 'fast_matvec_ttm', 'fast_matvec_on_tensor', 'amen_solve_kind', 'amen_solve_rhs_kind',
                     'amen_solve_nonsquare', 'amen_solve_dense', 'amen_mv_kind', 'amen_mv_dense', 'bilinear_kind', 'bilinear_dense', 't_on_tensor',
                     'M_on_tensor', 'mprod_on_ttm', 'dot_ttm', 'dot_dense', 'diag_dense', 'kron_kind', 'kron_bad', 'pow_int', 'cat_ttm', 'proj_kind',
                     'to_qtt_nonsquare', 'to_qtt_notpower', 'permute_dense', 'save_dense'):
            yield {'ep': 'misc', 'form': form, 'M': M, 'N': N}
    # ---- dot
    for d in (1, 2, 3):
        N = TN[:d]
        for pos in range(d):
            for how in ('plus1', 'one'):
                yield {'ep': 'dot', 'N': N, 'pos': pos, 'how': how}
        yield {'ep': 'dot', 'N': N, 'pos': 0, 'how': 'order'}
        for ax in space.subsets(d, nonempty=True):
            for j in range(len(ax)):
                for how in ('plus1', 'one'):
                    yield {'ep': 'dot_axis', 'N': N, 'ax': ax, 'pos': j, 'how': how}
        yield {'ep': 'dot_axis', 'N': N, 'ax': list(range(d)), 'pos': 0, 'how': 'b_longer'}
        # ---- indexing
        for ix in _bad_indices(N):
            yield {'ep': 'getitem', 'N': N, 'ix': ix}
        # too few int/slice entries made up for by new-axis entries (the guard must count modes, not produced cores); on
        # rank-1 bonds the truncated core list is itself a valid TT, so only the guard stands between the call and a wrong tensor
        for ix in _short_with_none(N):
            for rk in ('r2', 'r1'):
                yield {'ep': 'getitem', 'N': N, 'ix': ix, 'rk': rk}
        # ---- sum
        for arg in ([d], [d + 4], [0, d], -1, [-1], [-d], 'tuple', 'str', 1.5):
            yield {'ep': 'sum', 'N': N, 'arg': arg}
        # ---- reshape / permute / qtt
        numel = int(np.prod(N))
        for shp in ([numel + 1], [numel, 2], [2] * d + [2], N[:-1] + [N[-1] + 1]):
            yield {'ep': 'reshape', 'N': N, 'shape': shp}
        for dims in _bad_perms(d):
            yield {'ep': 'permute', 'N': N, 'dims': dims}
        # ---- cat / pad / mprod
        for ax in range(d):
            for pos in range(d):
                if pos != ax:
                    for how in ('plus1', 'one', 'first_one'):
                        yield {'ep': 'cat', 'N': N, 'ax': ax, 'pos': pos, 'how': how}
            yield {'ep': 'cat', 'N': N, 'ax': ax, 'pos': 0, 'how': 'order'}
        for dim in (d, d + 3, -1, -d - 1):
            yield {'ep': 'cat_dim', 'N': N, 'dim': dim}
        yield {'ep': 'pad_many', 'N': N}
        for k in range(d):
            for how in ('cols_plus1', 'cols_one'):
                yield {'ep': 'mprod', 'N': N, 'k': k, 'how': how}
        for how in ('mode_oob', 'list_int', 'int_list', 'none'):
            yield {'ep': 'mprod', 'N': N, 'k': 0, 'how': how}
        # ---- set_core
        for k in range(d):
            for how in ('rank_l', 'rank_r', 'ndim4', 'ndim2'):
                yield {'ep': 'set_core', 'N': N, 'k': k, 'how': how}
        for k in (d, d + 2, -1):
            yield {'ep': 'set_core', 'N': N, 'k': k, 'how': 'k_oob'}
        # ---- apply_mask
        for how in ('cols_more', 'cols_less', 'oob'):
            yield {'ep': 'apply_mask', 'N': N, 'how': how}
    # ---- constructors / factories
    for d in (1, 2, 3):
        for how in ('chain', 'first_rank', 'last_rank', 'ndim2', 'ndim5', 'mixed_3_4'):
            for pos in range(d):
                yield {'ep': 'ctor_cores', 'd': d, 'pos': pos, 'how': how}
        for how in ('R_short', 'R_long', 'R_first', 'R_last'):
            yield {'ep': 'random', 'd': d, 'how': how}
    # ---- operator indexing with a wrong number of indices
    for d in (1, 2, 3):
        M, N = OM[:d], ON[:d]
        for how in ('odd_len', 'one_pair_more', 'one_pair_less', 'mixed_pair', 'oob_row', 'oob_col'):
            if how == 'one_pair_less' and d == 1:
                continue
            yield {'ep': 'getitem_ttm', 'M': M, 'N': N, 'how': how}
    # ---- operator reshape: same total element count, different row / column split
    for (M, N) in (([2, 4], [3, 5]), ([2, 2], [3, 3]), ([6], [4])):
        tot = int(np.prod(M)) * int(np.prod(N))
        pm, pn = int(np.prod(M)), int(np.prod(N))
        seen = set()
        for m1 in range(1, tot + 1):
            if tot % m1:
                continue
            for n1 in range(1, tot // m1 + 1):
                if (tot // m1) % n1:
                    continue
                rest = tot // m1 // n1
                for m2 in range(1, rest + 1):
                    if rest % m2:
                        continue
                    n2 = rest // m2
                    if (m1 * m2, n1 * n2) == (pm, pn):
                        continue
                    if max(m1, n1, m2, n2) > 15 or (m1, n1, m2, n2) in seen:
                        continue
                    seen.add((m1, n1, m2, n2))
                    yield {'ep': 'reshape_ttm', 'M': M, 'N': N, 'shape': [[m1, n1], [m2, n2]]}
        yield {'ep': 'reshape_ttm', 'M': M, 'N': N, 'shape': [[pn, pm]]}
    # ---- mprod list form: mismatch at a non-first position
    for d in (2, 3, 4):
        N = [2, 3, 4, 5][:d]
        for j in range(1, d):
            for how in ('cols_plus1', 'cols_one'):
                for order in ('sorted', 'reversed'):
                    yield {'ep': 'mprod_list', 'N': N, 'j': j, 'how': how, 'order': order}
    for how in ('str', 'int', 'tuple_shape', 'empty_N'):
        yield {'ep': 'factory', 'how': how}
    for how in ('str', 'int', 'float', 'dict'):
        yield {'ep': 'ctor_type', 'how': how}
    for how in ('shape_numel', 'shape_numel_ttm', 'qtt_to_tens_notlist', 'qtt_to_tens_mismatch'):
        yield {'ep': 'ctor_shape', 'how': how}


def _bad_indices(N):
    d = len(N)
    full = ['s', None, None, None]
    out = []
    out.append([0] * (d + 1))                     # too many integers
    out.append([full] * (d + 1))                  # too many slices
    if d > 1:
        out.append([0] * (d - 1))                 # too few (no Ellipsis)
        out.append([full] * (d - 1))
        out.append('bare_int')
        out.append('bare_slice')
    for pos in range(d):
        ix = [0] * d
        ix[pos] = N[pos]                          # out of range
        out.append(ix)
        ix = [0] * d
        ix[pos] = -N[pos] - 1
        out.append(ix)
        ix = [full] * d
        ix[pos] = 'str'
        out.append(ix)
        ix = [full] * d
        ix[pos] = 1.5
        out.append(ix)
    out.append(['E', 'E'] + [0] * d)
    out.append(['E'] + [0] * (d + 1))
    out.append('str')
    out.append('float')
    return out


def _short_with_none(N):
    d = len(N)
    full = ['s', None, None, None]
    part = ['s', 0, 1, None]
    out = []
    for addr in range(0, d):                       # number of modes addressed (< d)
        for nn in range(1, d - addr + 2):          # number of None entries: fewer than, as many as, more than the missing modes
            for tok in (0, full, part):
                base = [tok] * addr
                out.append(base + ['N'] * nn)      # trailing
                out.append(['N'] * nn + base)      # leading
                if addr >= 1:
                    out.append(base[:1] + ['N'] * nn + base[1:])
    seen, res = set(), []
    for ix in out:
        k = repr(ix)
        if k not in seen and ix:
            seen.add(k)
            res.append(ix)
    return res


def _bad_perms(d):
    out = [list(range(d)) + [d], list(range(d + 1))]
    if d > 1:
        out += [list(range(d - 1)), [0] * d, list(range(1, d + 1)), [-1] + list(range(1, d)), [0.5] + list(range(1, d))]
    else:
        out += [[1], [-1]]
    return out


def _tok(t):
    if isinstance(t, list):
        return slice(t[1], t[2], t[3])
    return {'E': Ellipsis, 'N': None}.get(t, t) if isinstance(t, str) else t


def _dense_raises(fn):
    try:
        return False, fn()
    except Exception:
        return True, None


def judge(key, site, fn, operands, must=True, dense=None, doc=False, exact=True, ttm=None, nontrivial=True):
    """run the call; apply level 1 / level 2 / weak oracle; check that operands are unchanged"""
    snaps = [(o, snapshot(o)) for o in operands if isinstance(o, TT)]
    res, e = call(fn)
    viol = []
    outcome = 'raises:' + exc_name(e) if e is not None else 'returns:' + type(res).__name__
    if e is None:
        if must:
            viol.append(V(site + '.returned', 'returned %s instead of raising' % _describe(res)))
        elif dense is not None:
            want = dense
            if isinstance(res, TT):
                viol += check_tt(res, want, site + '.weak', None, exact, 1e6, ttm=ttm)
            elif torch.is_tensor(res):
                if tuple(res.shape) != tuple(want.shape) or not ref.close(ref.up(res), ref.up(want), 1e-9):
                    viol.append(V(site + '.weak.value', 'returned tensor differs from the dense result'))
            else:
                viol.append(V(site + '.weak.returned_other', _describe(res)))
    else:
        if doc and exc_name(e) not in LIB:
            viol.append(V(site + '.documented_case_raises_' + exc_name(e), repr(e)[:200]))
    for o, s in snaps:
        dmsg = snapshot_diff(o, s)
        if dmsg:
            viol.append(V(site + '.operand_changed', dmsg))
    return Outcome(key, nontrivial, outcome, violations=viol)


def _describe(res):
    if isinstance(res, TT):
        return 'TT N=%s' % (res.N,)
    if torch.is_tensor(res):
        return 'tensor shape %s' % (list(res.shape),)
    return '%s %r' % (type(res).__name__, res)


def _binop(op, a, b):
    return a + b if op == '+' else (a - b if op == '-' else a * b)


def run_case(c):
    ep = c['ep']
    key = 'c18|' + '|'.join('%s=%s' % (k, c[k]) for k in sorted(c))
    return globals()['_ep_' + ep](c, key)


def _ep_tt_binop(c, key):
    op, N, pos, how = c['op'], c['N'], c['pos'], c['how']
    site = 'binop.tensor.%s.%s' % ({'+': 'add', '-': 'sub', '*': 'mul'}[op], how)
    a, ca = _t(N, role='a')
    if how == 'plus1':
        b, cb = _t(_mut(N, pos, 'plus1'), role='b')
    elif how == 'first_one':
        a, ca = _t(_mut(N, pos, 'one'), role='a')
        b, cb = _t(N, role='b')
    elif how == 'longer':
        b, cb = _t([2] + N, role='b')
    elif how == 'kind':
        b, cb = _m(N, N, role='b')
    elif how == 'kind_rev':
        b, cb = _t(N, role='b')
        a, ca = _m(N, N, role='a')
    if how in ('kind', 'kind_rev'):
        return judge(key, site, lambda: _binop(op, a, b), [a, b], must=True, doc=True)
    raises, dense = _dense_raises(lambda: _binop(op, ref.contract(ca), ref.contract(cb)))
    if raises:
        return judge(key, site, lambda: _binop(op, a, b), [a, b], must=True, doc=True)
    # dense model accepts (the first operand would expand): undocumented -> raise or agree
    return judge(key, site, lambda: _binop(op, a, b), [a, b], must=False, dense=dense, ttm=False)


def _ep_tt_binop_type(c, key):
    op, N, bad = c['op'], c['N'], c['bad']
    a, ca = _t(N)
    other = _bad(bad)
    site = 'binop.tensor.%s.type_%s' % ({'+': 'add', '-': 'sub', '*': 'mul'}[op], bad)
    doc = op in '-*'        # __sub__ and __mul__ document InvalidArguments for a bad second operand; __add__ does not
    if bad == 'dense' and op == '*':
        doc = False         # a torch.Tensor is a documented operand type of *; only its element count is wrong
    return judge(key, site, lambda: _binop(op, a, other), [a], must=True, doc=doc)


def _ep_div_type(c, key):
    N, bad, side = c['N'], c['bad'], c['side']
    a, ca = _t(N)
    site = 'div.type_%s.%s' % (bad, side)
    if bad == 'tt':
        other, _ = _m(N, N)
        return judge(key, site, lambda: a / other, [a, other], must=True, doc=True)
    other = _bad(bad)
    if bad == 'dense' and side == 'r':
        # a tensor with more than one element where a scalar is expected
        return judge(key, site, lambda: a / other, [a], must=True, doc=False)
    if side == 'r':
        return judge(key, site, lambda: a / other, [a], must=True, doc=True)
    return judge(key, site, lambda: other / a, [a], must=True, doc=(bad not in ('dense', 'ndarray')))


def _ep_div_shape(c, key):
    N, pos, how = c['N'], c['pos'], c['how']
    a, ca = _t(N, role='a')
    site = 'div.shape.' + how
    if how == 'kind':
        b, _ = _m(N, N)
    else:
        b, _ = _t(_mut(N, pos, how), role='b')
    return judge(key, site, lambda: a / b, [a, b], must=True, doc=True)


def _ep_ttm_binop(c, key):
    op, M, N, pos, side, how = c['op'], c['M'], c['N'], c['pos'], c['side'], c['how']
    site = 'binop.operator.%s.%s' % ({'+': 'add', '-': 'sub', '*': 'mul'}[op], how)
    A, cA = _m(M, N, role='A')
    if how == 'order':
        B, cB = _m(M + [2], N + [2], role='B')
        return judge(key, site, lambda: _binop(op, A, B), [A, B], must=True, doc=True)
    M2, N2 = list(M), list(N)
    tgt = M2 if side == 'M' else N2
    if how == 'plus1':
        tgt[pos] += 1
    elif how == 'one':
        tgt[pos] = 1
    if how == 'first_one':
        M1, N1 = list(M), list(N)
        (M1 if side == 'M' else N1)[pos] = 1
        A, cA = _m(M1, N1, role='A')
    B, cB = _m(M2, N2, role='B')
    raises, dense = _dense_raises(lambda: _binop(op, ref.contract(cA), ref.contract(cB)))
    if raises:
        return judge(key, site, lambda: _binop(op, A, B), [A, B], must=True, doc=True)
    return judge(key, site, lambda: _binop(op, A, B), [A, B], must=False, dense=dense, ttm=True)


def _ep_matmul(c, key):
    form, M, N, pos, how = c['form'], c['M'], c['N'], c['pos'], c['how']
    d = len(N)
    site = 'matmul.%s.%s' % (form, how)
    A, _ = _m(M, N, role='A')
    sq, _ = _m(N, N, role='S')
    if how == 'order':
        bad = N + [2]
    else:
        bad = _mut(N, pos, how)
        if bad == N:
            return Outcome(key + '|skip', False, 'skipped: not a mismatch', transitions=0, compared=0)
    if form == 'A@x':
        x, _ = _t(bad, role='x')
        return judge(key, site, lambda: A @ x, [A, x], doc=True)
    if form == 'x@A':
        badM = (M + [2]) if how == 'order' else _mut(M, pos, how)
        if badM == M:
            return Outcome(key + '|skip', False, 'skipped', transitions=0, compared=0)
        x, _ = _t(badM, role='x')
        return judge(key, site, lambda: x @ A, [A, x], doc=True)
    if form == 'A@B':
        B, _ = _m(bad, (N + [2]) if how == 'order' else N, role='B')
        return judge(key, site, lambda: A @ B, [A, B], doc=True)
    if form == 'A@dense':
        x = torch.ones([2] + bad, dtype=torch.float64)
        return judge(key, site, lambda: A @ x, [A], doc=True)
    if form == 'fast_matvec':
        x, _ = _t(bad, role='x')
        return judge(key, site, lambda: A.fast_matvec(x, nswp=2, use_cpp=False), [A, x], doc=False)
    if form == 'amen_mv':
        x, _ = _t(bad, role='x')
        return judge(key, site, lambda: torchtt.amen_mv(A, x, nswp=2), [A, x], doc=True)
    if form == 'amen_mm':
        B, _ = _m(bad, (N + [2]) if how == 'order' else N, role='B')
        return judge(key, site, lambda: torchtt.amen_mm(A, B, nswp=2), [A, B], doc=False)
    if form == 'amen_solve':
        b, _ = _t(bad, role='b')
        return judge(key, site, lambda: torchtt.solvers.amen_solve(sq, b, nswp=2, use_cpp=False), [sq, b], doc=True)
    if form == 'bilinear_x':
        badM = (M + [2]) if how == 'order' else _mut(M, pos, how)
        if badM == M:
            return Outcome(key + '|skip', False, 'skipped', transitions=0, compared=0)
        x, _ = _t(badM, role='x')
        y, _ = _t(N, role='y')
        return judge(key, site, lambda: torchtt.bilinear_form(x, A, y), [A, x, y], doc=True)
    if form == 'bilinear_y':
        x, _ = _t(M, role='x')
        y, _ = _t(bad, role='y')
        return judge(key, site, lambda: torchtt.bilinear_form(x, A, y), [A, x, y], doc=True)
    raise KeyError(form)


def _ep_misc(c, key):
    form, M, N = c['form'], c['M'], c['N']
    site = 'misc.' + form
    A, _ = _m(M, N, role='A')
    S, _ = _m(N, N, role='S')
    x, _ = _t(N, role='x')
    y, _ = _t(N, role='y')
    dense = torch.ones(N, dtype=torch.float64)
    tbl = {
        'x@y': (lambda: x @ y, [x, y], True),
        'A@none': (lambda: A @ None, [A], False),
        'A@str': (lambda: A @ 'a', [A], False),
        'fast_matvec_dense': (lambda: A.fast_matvec(dense), [A], True),
        'fast_matvec_ttm': (lambda: A.fast_matvec(S), [A, S], True),
        'fast_matvec_on_tensor': (lambda: x.fast_matvec(y), [x, y], True),
        'amen_solve_kind': (lambda: torchtt.solvers.amen_solve(x, y, use_cpp=False), [x, y], True),
        'amen_solve_rhs_kind': (lambda: torchtt.solvers.amen_solve(S, S, use_cpp=False), [S], True),
        'amen_solve_nonsquare': (lambda: torchtt.solvers.amen_solve(A, x, nswp=2, use_cpp=False), [A, x], True),
        'amen_solve_dense': (lambda: torchtt.solvers.amen_solve(S, dense, use_cpp=False), [S], True),
        'amen_mv_kind': (lambda: torchtt.amen_mv(x, y), [x, y], True),
        'amen_mv_dense': (lambda: torchtt.amen_mv(A, dense), [A], True),
        'bilinear_kind': (lambda: torchtt.bilinear_form(x, y, y), [x, y], True),
        'bilinear_dense': (lambda: torchtt.bilinear_form(dense, S, y), [S, y], True),
        't_on_tensor': (lambda: x.t(), [x], True),
        'M_on_tensor': (lambda: x.M, [x], True),
        'mprod_on_ttm': (lambda: A.mprod(torch.ones(2, M[0], dtype=torch.float64), 0), [A], True),
        'dot_ttm': (lambda: torchtt.dot(S, S), [S], True),
        'dot_dense': (lambda: torchtt.dot(x, dense), [x], True),
        'diag_dense': (lambda: torchtt.diag(dense), [], True),
        'kron_kind': (lambda: torchtt.kron(x, A), [x, A], True),
        'kron_bad': (lambda: torchtt.kron(x, 3.0), [x], True),
        'pow_int': (lambda: x ** 3, [x], True),
        'cat_ttm': (lambda: torchtt.cat((S, S), 0), [S], True),
        'proj_kind': (lambda: torchtt.manifold.riemannian_projection(x, S), [x, S], True),
        'to_qtt_nonsquare': (lambda: A.to_qtt(), [A], True),
        'to_qtt_notpower': (lambda: torchtt.random([(3, 3), (5, 5)], [1, 2, 1]).to_qtt(), [], True),
        'permute_dense': (lambda: torchtt.permute(dense, list(range(len(N)))), [], True),
        'save_dense': (lambda: torchtt.save(dense, '/nonexistent/x.TT'), [], True),
    }
    fn, ops, doc = tbl[form]
    if form == 'to_qtt_nonsquare' and M == N:
        return Outcome(key + '|skip', False, 'skipped', transitions=0, compared=0)
    return judge(key, site, fn, ops, must=True, doc=doc)


def _ep_dot(c, key):
    N, pos, how = c['N'], c['pos'], c['how']
    a, _ = _t(N, role='a')
    b, _ = _t((N + [2]) if how == 'order' else _mut(N, pos, how), role='b')
    return judge(key, 'dot.full.' + how, lambda: torchtt.dot(a, b), [a, b], doc=True)


def _ep_dot_axis(c, key):
    N, ax, pos, how = c['N'], c['ax'], c['pos'], c['how']
    a, ca = _t(N, role='a')
    Nb = [N[i] for i in ax]
    if how == 'b_longer':
        Nb = Nb + [2]
        b, cb = _t(Nb, role='b')
        return judge(key, 'dot.axis.b_longer', lambda: torchtt.dot(a, b, ax + [0]), [a, b], doc=True)
    Nb2 = _mut(Nb, pos, how)
    if Nb2 == Nb:
        return Outcome(key + '|skip', False, 'skipped', transitions=0, compared=0)
    b, cb = _t(Nb2, role='b')
    # dense model: tensordot with mismatching contracted sizes is undefined
    return judge(key, 'dot.axis.' + how, lambda: torchtt.dot(a, b, list(ax)), [a, b], doc=False)


def _ep_getitem(c, key):
    N, ix = c['N'], c['ix']
    a, ca = _t(N, [1] * (len(N) + 1)) if c.get('rk') == 'r1' else _t(N)
    dx = ref.contract(ca)
    if ix == 'bare_int':
        index = 0
    elif ix == 'bare_slice':
        index = slice(None)
    elif ix == 'str':
        index = 'a'
    elif ix == 'float':
        index = 1.5
    else:
        index = tuple(_tok(t) for t in ix)
    raises, dense = _dense_raises(lambda: dx[index])
    if 'rk' in c:
        tag = 'short_with_newaxis.' + c['rk']
    else:
        tag = ix if isinstance(ix, str) else ('len%+d' % (len([t for t in ix if t != 'E']) - len(N)) if len([t for t in ix if t != 'E']) != len(N) else
                                          ('oob' if all(isinstance(t, int) for t in ix) else ('ellipsis2' if ix.count('E') > 1 else 'badtype')))
    site = 'getitem.' + tag
    if raises:
        doc = tag in ('len+1', 'ellipsis2', 'badtype', 'str', 'float')
        return judge(key, site, lambda: a[index], [a], must=True, doc=doc)
    # partial indexing etc.: valid for the dense array but undocumented for the library
    return judge(key, site, lambda: a[index], [a], must=False, dense=dense, ttm=False)


def _ep_sum(c, key):
    N, arg = c['N'], c['arg']
    a, ca = _t(N)
    dx = ref.contract(ca)
    if arg == 'tuple':
        arg_ = (0,)
    elif arg == 'str':
        arg_ = 'a'
    else:
        arg_ = arg
    site = 'sum.arg_%s' % ('oob' if isinstance(arg, list) and any(i >= len(N) for i in arg) else
                           ('negative' if (isinstance(arg, int) and arg < 0) or (isinstance(arg, list) and any(i < 0 for i in arg)) else str(type(arg_).__name__)))
    if isinstance(arg_, (list, int)) and not isinstance(arg_, bool):
        raises, dense = _dense_raises(lambda: dx.sum(dim=arg_))
    elif isinstance(arg_, tuple):
        raises, dense = False, dx.sum(dim=arg_)
    else:
        raises, dense = True, None
    if raises:
        return judge(key, site, lambda: a.sum(arg_), [a], must=True, doc=True)
    return judge(key, site, lambda: a.sum(arg_), [a], must=False, dense=dense, ttm=False)


def _ep_reshape(c, key):
    N, shp = c['N'], c['shape']
    a, ca = _t(N)
    return judge(key, 'reshape.numel', lambda: torchtt.reshape(a, shp), [a], must=True, doc=True)


def _ep_getitem_ttm(c, key):
    M, N, how = c['M'], c['N'], c['how']
    d = len(N)
    A, cA = _m(M, N)
    dA = ref.contract(cA)
    if how == 'odd_len':
        index = tuple([0] * (2 * d + 1))
    elif how == 'one_pair_more':
        index = tuple([0] * (2 * d + 2))
    elif how == 'one_pair_less':
        index = tuple([0] * (2 * d - 2))
    elif how == 'mixed_pair':
        index = tuple([0] * d + [slice(None)] * d)            # (int, slice) pairs: documented as invalid
    elif how == 'oob_row':
        index = tuple([M[0]] + [0] * (2 * d - 1))
    else:
        index = tuple([0] * d + [N[0]] + [0] * (d - 1))
    raises, dense = _dense_raises(lambda: dA[index])
    site = 'getitem.operator.' + how
    if how == 'mixed_pair':
        return judge(key, site, lambda: A[index], [A], must=True, doc=True)
    if raises:
        return judge(key, site, lambda: A[index], [A], must=True, doc=how in ('odd_len', 'one_pair_more'))
    return judge(key, site, lambda: A[index], [A], must=False, dense=dense, ttm=True)


def _ep_reshape_ttm(c, key):
    M, N = c['M'], c['N']
    A, cA = _m(M, N)
    shp = [tuple(t) for t in c['shape']]
    return judge(key, 'reshape.operator.row_col_split', lambda: torchtt.reshape(A, shp), [A], must=True, doc=True)


def _ep_mprod_list(c, key):
    N, j, how = c['N'], c['j'], c['how']
    a, ca = _t(N)
    modes = list(range(len(N)))
    mats = [torch.ones(2, N[k], dtype=torch.float64) for k in modes]
    mats[j] = torch.ones(2, N[j] + 1, dtype=torch.float64) if how == 'cols_plus1' else torch.ones(2, 1, dtype=torch.float64)
    if c['order'] == 'reversed':
        modes, mats = modes[::-1], mats[::-1]
    return judge(key, 'mprod.list.mismatch_not_first.' + how, lambda: a.mprod(mats, modes), [a], must=True, doc=True)


def _ep_permute(c, key):
    N, dims = c['N'], c['dims']
    a, ca = _t(N)
    dx = ref.contract(ca)
    raises, dense = _dense_raises(lambda: dx.permute([int(i) if float(i) == int(i) else i for i in dims]) if all(isinstance(i, int) for i in dims) else (_ for _ in ()).throw(TypeError()))
    if raises:
        return judge(key, 'permute.bad_dims', lambda: torchtt.permute(a, dims), [a], must=True, doc=True)
    return judge(key, 'permute.negative_dims', lambda: torchtt.permute(a, dims), [a], must=False, dense=dense, ttm=False, exact=False)


def _ep_cat(c, key):
    N, ax, pos, how = c['N'], c['ax'], c['pos'], c['how']
    a, ca = _t(N, role='a')
    if how == 'order':
        b, cb = _t(N + [2], role='b')
        return judge(key, 'cat.order', lambda: torchtt.cat((a, b), ax), [a, b], must=True, doc=True)
    if how == 'first_one':
        a, ca = _t(_mut(N, pos, 'one'), role='a')
        b, cb = _t(N, role='b')
    else:
        b, cb = _t(_mut(N, pos, how), role='b')
    raises, dense = _dense_raises(lambda: torch.cat((ref.contract(ca), ref.contract(cb)), ax))
    if not raises:
        return Outcome(key + '|skip', False, 'skipped: dense accepts', transitions=0, compared=0)
    return judge(key, 'cat.mode_mismatch.' + how, lambda: torchtt.cat((a, b), ax), [a, b], must=True, doc=True)


def _ep_cat_dim(c, key):
    N, dim = c['N'], c['dim']
    a, ca = _t(N, role='a')
    b, cb = _t(N, role='b')
    raises, dense = _dense_raises(lambda: torch.cat((ref.contract(ca), ref.contract(cb)), dim))
    if raises:
        return judge(key, 'cat.dim_oob', lambda: torchtt.cat((a, b), dim), [a, b], must=True, doc=False)
    return judge(key, 'cat.dim_negative', lambda: torchtt.cat((a, b), dim), [a, b], must=False, dense=dense, ttm=False)


def _ep_pad_many(c, key):
    N = c['N']
    a, ca = _t(N)
    return judge(key, 'pad.too_many', lambda: torchtt.pad(a, tuple((1, 1) for _ in range(len(N) + 1))), [a], must=True, doc=True)


def _ep_mprod(c, key):
    N, k, how = c['N'], c['k'], c['how']
    a, ca = _t(N)
    if how == 'cols_plus1':
        Mx = torch.ones(2, N[k] + 1, dtype=torch.float64)
        return judge(key, 'mprod.cols_mismatch', lambda: a.mprod(Mx, k), [a], must=True, doc=True)
    if how == 'cols_one':
        Mx = torch.ones(2, 1, dtype=torch.float64)
        return judge(key, 'mprod.cols_one', lambda: a.mprod([Mx], [k]), [a], must=True, doc=True)
    Mx = torch.ones(2, N[0], dtype=torch.float64)
    if how == 'mode_oob':
        return judge(key, 'mprod.mode_oob', lambda: a.mprod(Mx, len(N)), [a], must=True, doc=False)
    if how == 'list_int':
        return judge(key, 'mprod.list_int', lambda: a.mprod([Mx], 0), [a], must=True, doc=True)
    if how == 'int_list':
        return judge(key, 'mprod.int_list', lambda: a.mprod(Mx, [0]), [a], must=True, doc=True)
    return judge(key, 'mprod.none', lambda: a.mprod(None, 0), [a], must=True, doc=True)


def _ep_set_core(c, key):
    N, k, how = c['N'], c['k'], c['how']
    d = len(N)
    R = [1] + [2] * (d - 1) + [1]
    a, ca = _t(N, R)
    if how == 'k_oob':
        core = torch.ones(1, 2, 1, dtype=torch.float64)
        return judge(key, 'set_core.k_oob', lambda: a.set_core(k, core), [a], must=True, doc=True)
    shp = [R[k], N[k], R[k + 1]]
    if how == 'rank_l':
        shp[0] += 1
    elif how == 'rank_r':
        shp[2] += 1
    elif how == 'ndim4':
        shp = [R[k], N[k], 1, R[k + 1]]
    elif how == 'ndim2':
        shp = [R[k], R[k + 1]]
    core = torch.ones(shp, dtype=torch.float64)
    return judge(key, 'set_core.' + how, lambda: a.set_core(k, core), [a], must=True, doc=True)


def _ep_apply_mask(c, key):
    N, how = c['N'], c['how']
    d = len(N)
    a, ca = _t(N)
    if how == 'cols_more':
        idx = torch.zeros(2, d + 1, dtype=torch.int64)
    elif how == 'cols_less':
        if d == 1:
            return Outcome(key + '|skip', False, 'skipped', transitions=0, compared=0)
        idx = torch.zeros(2, d - 1, dtype=torch.int64)
    else:
        idx = torch.zeros(2, d, dtype=torch.int64)
        idx[1, d - 1] = N[d - 1]
    return judge(key, 'apply_mask.' + how, lambda: a.apply_mask(idx), [a], must=True, doc=False)


def _ep_ctor_cores(c, key):
    d, pos, how = c['d'], c['pos'], c['how']
    N = TN[:d]
    R = [1] + [2] * (d - 1) + [1]
    cores = values.cores_for(space.tensor_struct(N, R, 'f64', 'int'), 'a')
    if how == 'chain':
        if pos == d - 1:
            return Outcome(key + '|skip', False, 'skipped', transitions=0, compared=0)
        cores[pos] = torch.ones(R[pos], N[pos], R[pos + 1] + 1, dtype=torch.float64)
    elif how == 'first_rank':
        cores[0] = torch.ones(2, N[0], R[1], dtype=torch.float64)
    elif how == 'last_rank':
        cores[-1] = torch.ones(R[-2], N[-1], 2, dtype=torch.float64)
    elif how == 'ndim2':
        cores[pos] = torch.ones(R[pos], R[pos + 1], dtype=torch.float64)
    elif how == 'ndim5':
        cores[pos] = torch.ones(R[pos], N[pos], 1, 1, R[pos + 1], dtype=torch.float64)
    elif how == 'mixed_3_4':
        if d == 1:
            return Outcome(key + '|skip', False, 'skipped', transitions=0, compared=0)
        cores[pos] = torch.ones(R[pos], N[pos], 2, R[pos + 1], dtype=torch.float64)
    return judge(key, 'ctor.cores.' + how, lambda: torchtt.TT(cores), [], must=True, doc=True)


def _ep_random(c, key):
    d, how = c['d'], c['how']
    N = TN[:d]
    R = [1] + [2] * (d - 1) + [1]
    if how == 'R_short':
        R = R[:-1]
    elif how == 'R_long':
        R = R + [1]
    elif how == 'R_first':
        R[0] = 2
    elif how == 'R_last':
        R[-1] = 2
    return judge(key, 'random.' + how, lambda: torchtt.random(N, R), [], must=True, doc=True)


def _ep_factory(c, key):
    how = c['how']
    tbl = {'str': lambda: torchtt.zeros('ab'), 'int': lambda: torchtt.ones(5), 'tuple_shape': lambda: torchtt.zeros((2, 3)),
           'empty_N': lambda: torchtt.random([], [1])}
    return judge(key, 'factory.' + how, tbl[how], [], must=True, doc=True)


def _ep_ctor_type(c, key):
    how = c['how']
    src = {'str': 'abc', 'int': 5, 'float': 2.5, 'dict': {'a': 1}}[how]
    return judge(key, 'ctor.type_' + how, lambda: torchtt.TT(src), [], must=True, doc=True)


def _ep_ctor_shape(c, key):
    how = c['how']
    if how == 'shape_numel':
        return judge(key, 'ctor.shape_numel', lambda: torchtt.TT(torch.ones(2, 3, 4, dtype=torch.float64), [2, 3, 5]), [], must=True, doc=False)
    if how == 'shape_numel_ttm':
        return judge(key, 'ctor.shape_numel_ttm', lambda: torchtt.TT(torch.ones(2, 3, 2, 3, dtype=torch.float64), [(2, 2), (3, 4)]), [], must=True, doc=False)
    x = torchtt.random([2, 2, 2, 2], [1, 2, 2, 2, 1])
    if how == 'qtt_to_tens_notlist':
        return judge(key, 'qtt_to_tens.notlist', lambda: x.qtt_to_tens((4, 4)), [x], must=True, doc=True)
    return judge(key, 'qtt_to_tens.mismatch', lambda: x.qtt_to_tens([4, 8]), [x], must=True, doc=True)
