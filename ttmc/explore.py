"""
E2 — explicit-state search over histories of public calls (DESIGN §4.2).

A state is the history that produced a pool of live TT objects.  Live tensors alias each other (views must stay views), so
a state is never deep-copied: it is re-built by replaying its history on fresh objects.  Every transition calls the real
method; after every transition the monitors run on EVERY live object:

  wf   (C05)  cores all 3-d / all 4-d, rank chain, boundary ranks 1, reported N/M/R/shape/is_ttm equal the cores',
              full().shape == M+N
  imm  (C06)  frozen record (core values, version counters, R, N, M, dtype, number of cores) of every object other than the
              receiver of a documented in-place operation is unchanged

Search: depth-first over events with live-pool reuse (a pure transition only appends one object, which the monitors have
just verified; after an in-place event or a detected change the pool is rebuilt by replay).  Reduction: from depth 2 on,
an event must involve the object created by the previous event or be an in-place event (events on older objects commute
with the previous creation and are explored from the shorter history).
"""
import itertools
import os
import tempfile
import numpy as np
import torch
import torchtt
from . import ref, space, values
from .lib import TT, snapshot, snapshot_diff, exc_name

MAXPOOL = 7


# ------------------------------------------------------------------------------------------------ initial pools

def _tt(N, R, role, dt='f64', M=None):
    st = space.operator_struct(M, N, R, dt, 'gauss') if M is not None else space.tensor_struct(N, R, dt, 'gauss')
    return torchtt.TT(values.cores_for(st, role, 0))


def init_pool(pid):
    if pid == 0:
        return [_tt([2, 3, 4], [1, 2, 3, 1], 'a'), _tt([2, 3, 4], [1, 3, 2, 1], 'b'), _tt([2, 3, 4], [1, 2, 2, 1], 'A', M=[3, 2, 2])]
    if pid == 1:
        return [_tt([2, 1, 3], [1, 2, 2, 1], 'a'), _tt([2, 3, 1], [1, 2, 1, 1], 'b'), _tt([3], [1, 1], 'v')]
    if pid == 2:
        return [_tt([4], [1, 1], 'a'), _tt([4], [1, 1], 'A', M=[3]), _tt([4], [1, 1], 'S', M=[4])]
    if pid == 3:
        return [_tt([2, 3], [1, 2, 1], 'a', 'c128'), _tt([2, 3], [1, 3, 1], 'b', 'c128'), _tt([2, 3], [1, 2, 1], 'A', 'c128', M=[2, 3])]
    if pid == 4:
        full = ref.contract(values.cores_for(space.tensor_struct([4, 2, 4], [1, 2, 2, 1], 'f64', 'gauss'), 'a', 0))
        x = torchtt.TT(full, eps=1e-12)
        big = _tt([4, 4, 6], [1, 2, 2, 1], 'b')
        return [x, big[0:4, 1:3, 1:5], _tt([4, 2, 4], [1, 2, 2, 1], 'S', M=[4, 2, 4])]
    if pid == 5:
        # uniform structure: all modes equal, all interior ranks equal, so the two interior cores of every object (and of most results)
        # have ONE shape - anything keyed, cached or reused by core shape collides here and nowhere in pools 0..4
        return [_tt([2, 2, 2, 2], [1, 2, 2, 2, 1], 'a'), _tt([2, 2, 2, 2], [1, 2, 2, 2, 1], 'b'), _tt([2, 2, 2, 2], [1, 2, 2, 2, 1], 'A', M=[2, 2, 2, 2])]
    raise KeyError(pid)


NPOOLS = 6


# ------------------------------------------------------------------------------------------------ events

class Ev:
    """event template: name, arity (number of TT operands), inplace flag, function(pool objects..., arg) and a
    model-side enabling predicate"""

    def __init__(self, name, arity, fn, enabled=None, inplace=False, args=(None,), slow=False):
        self.name, self.arity, self.fn, self.enabled, self.inplace, self.args, self.slow = name, arity, fn, enabled, inplace, args, slow


BIG = 20000          # objects with more dense entries than this are not densified by events / monitors


def numel(x):
    n = 1
    for k in x.N:
        n *= k
    if x.is_ttm:
        for k in x.M:
            n *= k
    return n


def _small(x):
    return numel(x) <= BIG


def _is_t(x):
    return not x.is_ttm


def _is_m(x):
    return x.is_ttm


def _same_shape(x, y):
    return x.is_ttm == y.is_ttm and x.N == y.N and (not x.is_ttm or x.M == y.M)


_TMP = None


def _saveload(x, arg):
    global _TMP
    if _TMP is None:
        _TMP = tempfile.mkdtemp(prefix='ttmc_e2_')
        import atexit
        import shutil
        atexit.register(shutil.rmtree, _TMP, True)
    p = os.path.join(_TMP, 'x%d.TT' % os.getpid())
    torchtt.save(x, p)
    y = torchtt.load(p)
    os.remove(p)
    return y


def _idx_expr(x, arg):
    d = len(x.N)
    if x.is_ttm:
        if arg == 'int0':
            return tuple([0] + [slice(None)] * (d - 1) + [0] + [slice(None)] * (d - 1)) if d > 1 else (0, 0)
        return tuple([slice(0, 1)] * d + [slice(None)] * d)
    if arg == 'int0':
        return tuple([0] + [slice(None)] * (d - 1))
    if arg == 'intlast':
        return tuple([slice(None)] * (d - 1) + [-1])
    if arg == 'len1':
        return tuple([slice(0, 1)] + [slice(None)] * (d - 1))
    if arg == 'none':
        return tuple([None] + [slice(None)] * d)
    if arg == 'ell':
        return (Ellipsis, 0)
    if arg == 'sub':
        return tuple(slice(0, max(1, n - 1)) for n in x.N)
    if arg == 'allint':
        return tuple([0] * d)
    raise KeyError(arg)


def _idx(x, arg):
    return x[_idx_expr(x, arg)]


def _reshape(x, arg):
    N = x.N
    if x.is_ttm:
        M = x.M
        if len(N) >= 2:
            return torchtt.reshape(x, [(M[0] * M[1], N[0] * N[1])] + [(m, n) for m, n in zip(M[2:], N[2:])])
        return torchtt.reshape(x, [(M[0], N[0]), (1, 1)])
    if arg == 'merge' and len(N) >= 2:
        return torchtt.reshape(x, [N[0] * N[1]] + N[2:])
    if arg == 'ones':
        return torchtt.reshape(x, [1] + N + [1])
    if N[0] % 2 == 0:
        return torchtt.reshape(x, [2, N[0] // 2] + N[1:])
    return torchtt.reshape(x, N + [1])


def _set_core(x, arg):
    if arg in ('neg1', 'negd'):
        # a negative core index with a core sized by Python's negative indexing into the rank list (must be rejected, or
        # handled consistently)
        k = -1 if arg == 'neg1' else -len(x.N)
        R = x.R
        shp = [R[k], 2] + ([2] if x.is_ttm else []) + [R[k + 1]]
        x.set_core(k, torch.ones(shp, dtype=x.cores[0].dtype))
        return None
    k = 0 if arg in ('same0', 'grow0') else len(x.N) - 1
    c = x.cores[k]
    # a generic replacement core (a constant core can reproduce the old norm / value by coincidence)
    shp = list(c.shape)
    if not arg.startswith('same'):
        shp[1] += 1
    dtn = ref.DTN.get(c.dtype, 'f64')
    new = values.dense_tensor(shp, dtn, 'gauss', 0, 'setcore%s' % arg) * 0.7
    x.set_core(k, new)
    return None


def _pad(x, arg):
    d = len(x.N)
    return torchtt.pad(x, ((1, 1),), arg) if not x.is_ttm else torchtt.pad(x, tuple((1, 0) for _ in range(d)), arg)


def _mprod(x, arg):
    k = 0 if arg == 'first' else len(x.N) - 1
    Mx = torch.ones(2, x.N[k], dtype=x.cores[0].dtype) * 0.5
    return x.mprod(Mx, k)


def _qtt(x, arg):
    return x.to_qtt()


def _solve(A, b, x0, arg):
    S = A + (float(torch.linalg.matrix_norm(ref.op_matrix(ref.contract(A.cores), len(A.N)).to(torch.complex128), 1).real) * 1.5) * torchtt.eye(A.N, dtype=A.cores[0].dtype)
    return torchtt.solvers.amen_solve(S, b, x0=x0, nswp=4, eps=1e-6, use_cpp=False)


UNARY = [
    Ev('neg', 1, lambda x, a: -x),
    Ev('pos', 1, lambda x, a: +x),
    Ev('clone', 1, lambda x, a: x.clone()),
    Ev('detach', 1, lambda x, a: x.detach()),
    Ev('conj', 1, lambda x, a: x.conj()),
    Ev('t', 1, lambda x, a: x.t(), _is_m),
    Ev('to_ttm', 1, lambda x, a: x.to_ttm(), _is_t),
    Ev('round', 1, lambda x, a: x.round(a[0], a[1]), args=((1e-12, 10 ** 6), (1e-2, 1))),
    Ev('getitem', 1, _idx, args=('int0', 'intlast', 'len1', 'none', 'ell', 'sub', 'allint')),
    Ev('sum', 1, lambda x, a: x.sum() if a == 'all' else x.sum(0 if a == 'first' else [len(x.N) - 1]), args=('all', 'first', 'last')),
    Ev('norm', 1, lambda x, a: x.norm(a), args=(False, True)),
    Ev('full', 1, lambda x, a: x.full(), _small),
    Ev('numpy', 1, lambda x, a: x.numpy(), _small),
    Ev('mul_scalar', 1, lambda x, a: x * a, args=(2.0, 0)),
    Ev('rmul_scalar', 1, lambda x, a: 2.0 * x),
    Ev('add_scalar', 1, lambda x, a: x + a, args=(1.0, 0)),
    Ev('sub_scalar', 1, lambda x, a: x - a, args=(1.0, 0)),
    Ev('rsub_scalar', 1, lambda x, a: a - x, args=(1.0, 0)),
    Ev('div_scalar', 1, lambda x, a: x / a, args=(2.0, torch.tensor(4.0, dtype=torch.float64))),
    Ev('pow_none', 1, lambda x, a: x ** None),
    Ev('reshape', 1, _reshape, args=('merge', 'split', 'ones')),
    Ev('permute', 1, lambda x, a: torchtt.permute(x, list(range(len(x.N)))[::-1]), lambda x: len(x.N) >= 2),
    Ev('to_qtt', 1, _qtt, lambda x: (not x.is_ttm and all(n in (1, 2, 4, 8) for n in x.N)) or (x.is_ttm and x.M == x.N and all(n in (2, 4, 8) for n in x.N))),
    Ev('pad', 1, _pad, args=(0.0, 2.0)),
    Ev('diag', 1, lambda x, a: torchtt.diag(x), lambda x: numel(x) <= 2000),
    Ev('mprod', 1, _mprod, _is_t, args=('first', 'last')),
    Ev('saveload', 1, _saveload),
    Ev('apply_mask', 1, lambda x, a: x.apply_mask(torch.zeros(2, len(x.N), dtype=torch.int64)), _is_t),
    Ev('to_f32', 1, lambda x, a: x.to(dtype=torch.float32), lambda x: not x.cores[0].dtype.is_complex),
    Ev('cpu', 1, lambda x, a: x.cpu()),
    Ev('set_core', 1, _set_core, inplace=True, args=('same0', 'growlast', 'neg1', 'negd')),
    Ev('ctor_cores', 1, lambda x, a: torchtt.TT(x.cores)),
    Ev('reduce_dims', 1, lambda x, a: x.reduce_dims(), inplace=True),
    Ev('watch', 1, lambda x, a: torchtt.grad.watch(x), inplace=True, enabled=lambda x: not x.cores[0].dtype.is_complex),
    Ev('unwatch', 1, lambda x, a: torchtt.grad.unwatch(x), inplace=True),
    Ev('rdiv_scalar', 1, lambda x, a: 2.0 / (x * x + 1.0), _is_t, slow=True),
]

BINARY = [
    Ev('add', 2, lambda x, y, a: x + y),
    Ev('sub', 2, lambda x, y, a: x - y),
    Ev('mul', 2, lambda x, y, a: x * y),
    Ev('matmul', 2, lambda x, y, a: x @ y),
    Ev('kron', 2, lambda x, y, a: x ** y, lambda x, y: len(x.N) + len(y.N) <= 6 and numel(x) * numel(y) <= 50 * BIG),
    Ev('kron_fn', 2, lambda x, y, a: torchtt.kron(x, y), lambda x, y: len(x.N) + len(y.N) <= 6 and numel(x) * numel(y) <= 50 * BIG),
    Ev('dot', 2, lambda x, y, a: torchtt.dot(x, y)),
    Ev('cat', 2, lambda x, y, a: torchtt.cat((x, y), 0)),
    Ev('fast_matvec', 2, lambda x, y, a: x.fast_matvec(y, nswp=4, use_cpp=False)),
    Ev('dmrg_hadamard', 2, lambda x, y, a: torchtt.dmrg_hadamard(x, y, nswp=4)),
    Ev('amen_mv', 2, lambda x, y, a: torchtt.amen_mv(x, y, nswp=4), slow=True),
    Ev('amen_mm', 2, lambda x, y, a: torchtt.amen_mm(x, y, nswp=4), slow=True),
    Ev('projection', 2, lambda x, y, a: torchtt.manifold.riemannian_projection(x, y), lambda x, y: not x.cores[0].dtype.is_complex),
    Ev('divide', 2, lambda x, y, a: x / (y * y + 1.0), lambda x, y: _is_t(x) and _is_t(y), slow=True),
]

def _cross_start(s, arg):
    N = s.N
    d = len(N)
    f = lambda I: 1.0 / (2.0 + I.sum(dim=1).to(torch.float64))
    return torchtt.interpolate.dmrg_cross(f, list(N), eps=1e-6, nswp=2, x_start=s)


def _interp_start(x, s, arg):
    return torchtt.interpolate.function_interpolate(lambda t: t * t, x, eps=1e-6, start_tens=s, nswp=2)


def _real_t(x):
    return _is_t(x) and not x.cores[0].dtype.is_complex and x.cores[0].dtype == torch.float64 and len(x.N) >= 2


UNARY += [
    Ev('dmrg_cross_start', 1, _cross_start, lambda x: _real_t(x) and all(n >= 2 for n in x.N), slow=True),
    Ev('riemannian_gradient', 1, lambda x, a: torchtt.manifold.riemannian_gradient(x, lambda X: 0.5 * (X * X).sum() if X.is_ttm else 0.5 * torchtt.dot(X, X)),
       lambda x: not x.cores[0].dtype.is_complex and len(x.N) >= 2 and not any(c.requires_grad for c in x.cores)),
]
BINARY += [
    Ev('function_interpolate_start', 2, _interp_start, lambda x, s: _real_t(x) and _real_t(s) and x.N == s.N and all(n >= 2 for n in x.N), slow=True),
]

TERNARY = [
    Ev('fast_matvec_init', 3, lambda x, y, z, a: x.fast_matvec(y, initial=z, nswp=4, use_cpp=False)),
    Ev('dmrg_hadamard_init', 3, lambda x, y, z, a: torchtt.dmrg_hadamard(x, y, z0=z, nswp=4)),
    Ev('amen_mv_init', 3, lambda x, y, z, a: torchtt.amen_mv(x, y, x0=z, nswp=4), slow=True),
    Ev('bilinear', 3, lambda x, y, z, a: torchtt.bilinear_form(x, y, z)),
    Ev('amen_mm_init', 3, lambda x, y, z, a: torchtt.amen_mm(x, y, X0=z, nswp=4),
       lambda x, y, z: x.is_ttm and y.is_ttm and z.is_ttm and x.N == y.M and z.M == x.M and z.N == y.N, slow=True),
    Ev('amen_solve_init', 3, _solve, lambda A, b, x0: A.is_ttm and A.M == A.N and _is_t(b) and _is_t(x0) and A.N == b.N and b.N == x0.N, slow=True),
    Ev('ediv_init', 3, lambda x, y, z, a: torchtt.elementwise_divide(x, y * y + 1.0, starting_tensor=z, nswp=4, eps=1e-6),
       lambda x, y, z: _is_t(x) and _is_t(y) and _is_t(z) and x.N == y.N == z.N, slow=True),
]


def _plausible2(ev, x, y):
    """model-side pre-filter: run compatible pairs, and ONE class of incompatible ones per event (same kind, other shape)"""
    n = ev.name
    if x.cores[0].dtype != y.cores[0].dtype:
        return False        # the library has no dtype-promotion contract; mixed-dtype operand pairs are outside the alphabet
    if ev.enabled is not None and not ev.enabled(x, y):
        return False
    if n in ('add', 'sub', 'mul', 'dot', 'cat', 'dmrg_hadamard'):
        return x.is_ttm == y.is_ttm or n in ('add',)
    if n == 'matmul':
        return x.is_ttm or y.is_ttm
    if n in ('fast_matvec', 'amen_mv'):
        return x.is_ttm and not y.is_ttm
    if n == 'amen_mm':
        return x.is_ttm and y.is_ttm
    if n == 'projection':
        return x.is_ttm == y.is_ttm and x.N == y.N and (not x.is_ttm or x.M == y.M)
    return True


def _plausible3(ev, x, y, z):
    if not (x.cores[0].dtype == y.cores[0].dtype == z.cores[0].dtype):
        return False
    if ev.enabled is not None:
        return ev.enabled(x, y, z)
    n = ev.name
    if n in ('fast_matvec_init', 'amen_mv_init'):
        return x.is_ttm and not y.is_ttm and not z.is_ttm and x.N == y.N and z.N == x.M
    if n == 'dmrg_hadamard_init':
        return not x.is_ttm and not y.is_ttm and not z.is_ttm and x.N == y.N == z.N
    if n == 'bilinear':
        return y.is_ttm and not x.is_ttm and not z.is_ttm and x.N == y.M and z.N == y.N
    return True


def enabled_events(pool, newest, with_slow):
    """all (event, operand indices, arg index) enabled in this state; newest = index that must be involved (or None)"""
    out = []
    n = len(pool)
    for ev in UNARY:
        if ev.slow and not with_slow:
            continue
        for i in range(n):
            if newest is not None and i != newest and not ev.inplace:
                continue
            if ev.enabled is not None and not ev.enabled(pool[i]):
                continue
            for ai in range(len(ev.args)):
                out.append((ev, (i,), ai))
    for ev in BINARY:
        if ev.slow and not with_slow:
            continue
        for i in range(n):
            for j in range(n):
                if newest is not None and newest not in (i, j):
                    continue
                if not _plausible2(ev, pool[i], pool[j]):
                    continue
                out.append((ev, (i, j), 0))
    for ev in TERNARY:
        if ev.slow and not with_slow:
            continue
        for i in range(n):
            for j in range(n):
                for k in range(n):
                    if newest is not None and newest not in (i, j, k):
                        continue
                    if not _plausible3(ev, pool[i], pool[j], pool[k]):
                        continue
                    out.append((ev, (i, j, k), 0))
    return out


# ------------------------------------------------------------------------------------------------ monitors

def wf_violation(x):
    """C05 predicate on one object; returns None or (symptom, detail)"""
    if x.cores == [] and x.N == [] and x.R == [1, 1]:
        return None            # the documented empty object
    try:
        ittm, M, N, R = ref.structure_of(x.cores)
    except ValueError as e:
        return ('malformed_cores', str(e))
    try:
        rep = (bool(x.is_ttm), list(x.M) if x.is_ttm else [], list(x.N), [int(r) for r in x.R])
    except Exception as e:
        return ('metadata_raises', repr(e))
    if rep != (ittm, M, N, R):
        which = [n for n, a, b in zip(('is_ttm', 'M', 'N', 'R'), rep, (ittm, M, N, R)) if a != b]
        return ('stale_' + '_'.join(which), 'reported %s, cores give %s' % (rep, (ittm, M, N, R)))
    shp = [(m, n) for m, n in zip(M, N)] if ittm else list(N)
    if list(getattr(x, 'shape', [])) != shp:
        return ('stale_shape', 'shape attribute %s, cores give %s' % (getattr(x, 'shape', None), shp))
    if numel(x) > BIG:
        return None             # too large to densify; the structural part above has been checked
    try:
        f = x.full()
    except Exception as e:
        return ('full_raises_' + exc_name(e), repr(e)[:200])
    if list(f.shape) != M + N:
        return ('full_shape', 'full() shape %s, M+N = %s' % (list(f.shape), M + N))
    return None


def state_key(pool):
    """canonical key (DESIGN §4.2): sorted tuple over live objects of structure, dtype, grad flag, contiguity, alias class"""
    stor = {}
    items = []
    for x in pool:
        al = []
        for c in x.cores:
            p = c.untyped_storage().data_ptr()
            al.append(stor.setdefault(p, len(stor)))
        items.append((bool(x.is_ttm), tuple(x.M) if x.is_ttm else (), tuple(x.N), tuple(int(r) for r in x.R), str(x.cores[0].dtype) if x.cores else '',
                      any(c.requires_grad for c in x.cores), tuple(c.is_contiguous() for c in x.cores), tuple(al)))
    # alias class ids are renumbered in sorted order so that the key does not depend on creation order
    items.sort(key=lambda t: t[:7])
    remap = {}
    out = []
    for t in items:
        out.append(t[:7] + (tuple(remap.setdefault(a, len(remap)) for a in t[7]),))
    return repr(out)


# ------------------------------------------------------------------------------------------------ the search

class Explorer:
    def __init__(self, pid, depth, with_slow=False, merge_from=None, monitors=('wf', 'imm'), last_events=None):
        self.pid, self.depth, self.with_slow, self.merge_from, self.monitors = pid, depth, with_slow, merge_from, monitors
        self.last_events = last_events      # if given: only these event names are enabled at the last level (and value-checked)
        self.value_checks = 0
        self.states = set()
        self.transitions = 0
        self.monitor_evals = 0
        self.raised = 0
        self.viol = {}       # cls -> (history, detail)
        self.seen_merge = set()
        self.outcomes = {}
        self.nontrivial_states = set()

    # -- applying one event to a live pool
    def apply(self, pool, ev, idx, ai):
        arg = ev.args[ai]
        torch.manual_seed(7)
        np.random.seed(7)
        ops = [pool[i] for i in idx]
        try:
            res = ev.fn(*ops, arg)
            return res, None
        except Exception as e:
            return None, e

    def rebuild(self, hist):
        pool = init_pool(self.pid)
        for (name, idx, ai) in hist:
            ev = EVBYNAME[name]
            res, e = self.apply(pool, ev, idx, ai)
            if isinstance(res, TT):
                pool.append(res)
        return pool

    def record(self, cls, hist, detail):
        if cls not in self.viol:
            self.viol[cls] = ([list(h) for h in hist], detail)

    def run_root(self, first=None):
        """explore the subtree below the initial state; `first` (an index into the root's event list) restricts it to one
        first transition, which is how the work is sharded"""
        pool = init_pool(self.pid)
        snaps = [snapshot(x) for x in pool]
        self.states.add(state_key(pool))
        for x in pool:
            v = wf_violation(x)
            if v and 'wf' in self.monitors:
                self.record('wf.initial.' + v[0], [], v[1])
        evs = enabled_events(pool, None, True)       # the root level always includes the slow (iterative) entry points
        if self.last_events is not None:
            evs = [c for c in evs if not c[0].slow and (self.depth > 1 or c[0].name in self.last_events)]
        if first is not None:
            evs = evs[first:first + 1]
        self._expand(pool, snaps, [], evs, 1)

    def _expand(self, pool, snaps, hist, evs, depth):
        dirty = False
        for (ev, idx, ai) in evs:
            if dirty:
                pool[:] = self.rebuild(hist)
                snaps[:] = [snapshot(x) for x in pool]
                dirty = False
            n0 = len(pool)
            g0 = (torch.get_default_dtype(), torch.is_grad_enabled())
            res, e = self.apply(pool, ev, idx, ai)
            self.transitions += 1
            h2 = hist + [(ev.name, idx, ai)]
            g1 = (torch.get_default_dtype(), torch.is_grad_enabled())
            if g1 != g0:
                # interpreter-wide state leaked by the call: every later call (of any object) may now behave differently, which
                # also invalidates the independence assumption behind the 'newest object' reduction
                self.record('glob.%s.%s_changed' % (ev.name, 'default_dtype' if g1[0] != g0[0] else 'grad_mode'), h2, '%s -> %s' % (g0, g1))
                torch.set_default_dtype(g0[0])
                torch.set_grad_enabled(g0[1])
            oc = ev.name + (':raises:' + exc_name(e) if e is not None else ':' + type(res).__name__)
            self.outcomes[oc] = self.outcomes.get(oc, 0) + 1
            if e is not None:
                self.raised += 1
            bad_state = False
            # ---- immutability monitor on every pre-existing object
            receiver = idx[0] if ev.inplace else None
            for k in range(n0):
                self.monitor_evals += 1
                if k == receiver and e is None:
                    continue
                dmsg = snapshot_diff(pool[k], snaps[k])
                if dmsg:
                    dirty = True
                    role = 'receiver_of_failed_call' if k == receiver else ('operand%d' % idx.index(k) if k in idx else 'bystander')
                    if 'imm' in self.monitors:
                        self.record('imm.%s.%s' % (ev.name, role), h2, dmsg)
                        bad_state = True
            # ---- well-formedness monitor on every live object (the new one and the in-place receiver included)
            live = list(range(n0))
            newobj = res if isinstance(res, TT) else None
            for k in live:
                v = wf_violation(pool[k])
                self.monitor_evals += 1
                if v:
                    dirty = True
                    if 'wf' in self.monitors:
                        self.record('wf.%s.%s.%s' % (ev.name, 'receiver' if k == receiver else 'existing', v[0]), h2, v[1])
                        bad_state = True
            if 'val' in self.monitors and e is None and (self.last_events is None or ev.name in self.last_events):
                vv = value_violation(ev, [pool[i] for i in idx], ev.args[ai], res)
                self.value_checks += 1
                if vv:
                    self.record('val.%s.%s' % (ev.name, vv[0]), h2, vv[1])
                    bad_state = True
            if newobj is not None:
                v = wf_violation(newobj)
                self.monitor_evals += 1
                if v:
                    if 'wf' in self.monitors:
                        self.record('wf.%s.result.%s' % (ev.name, v[0]), h2, v[1])
                        bad_state = True
            if ev.inplace:
                dirty = True
                if e is None:
                    snaps[receiver] = snapshot(pool[receiver])     # the documented in-place change is the new baseline
            # ---- successor state
            grow = newobj is not None and len(pool) < MAXPOOL
            if grow:
                pool.append(newobj)
                snaps.append(snapshot(newobj))
            key = state_key(pool)
            self.states.add(key)
            if any(any(r > 1 for r in x.R) for x in pool[n0:]):
                self.nontrivial_states.add(key)
            if depth < self.depth and not bad_state and (grow or (ev.inplace and e is None)):
                go = True
                if self.merge_from is not None and depth >= self.merge_from:
                    if key in self.seen_merge:
                        go = False
                    self.seen_merge.add(key)
                if go:
                    if ev.inplace:
                        # children of an in-place event: any event that involves the receiver
                        child = enabled_events(pool, idx[0], self.with_slow)
                    else:
                        child = enabled_events(pool, len(pool) - 1, self.with_slow)
                    if self.last_events is not None and depth + 1 == self.depth:
                        child = [c for c in child if c[0].name in self.last_events]
                    self._expand(pool, snaps, h2, child, depth + 1)
                    # the subtree may have run in-place events: be safe and rebuild when it did
                    if any(c[0].inplace for c in child):
                        dirty = True
            if grow:
                pool.pop()
                snaps.pop()
        if dirty:
            pool[:] = self.rebuild(hist)
            snaps[:] = [snapshot(x) for x in pool]


EVBYNAME = {ev.name: ev for ev in UNARY + BINARY + TERNARY}


# ------------------------------------------------------------------------------------------------ dense counterparts
# (value monitor: the last event of a history is compared with its dense definition applied to the dense values of its
#  operands AS THEY ARE IN THAT STATE - views, non-contiguous cores, rounded / sliced / padded objects ...)

def _dn(x):
    return ref.contract(x.cores)


def _mat(d, nd):
    """(dense M+N array, order) -> index helpers"""
    return list(range(nd)), list(range(nd, 2 * nd))


def _dense_matmul(x, y):
    X, Y = _dn(x), _dn(y)
    if x.is_ttm and not y.is_ttm:
        d = len(x.N)
        return torch.tensordot(X, Y, dims=(list(range(d, 2 * d)), list(range(d))))
    if x.is_ttm and y.is_ttm:
        d = len(x.N)
        return torch.tensordot(X, Y, dims=(list(range(d, 2 * d)), list(range(d))))
    d = len(y.N)
    return torch.tensordot(X, Y, dims=(list(range(d)), list(range(d))))


def _dense_kron(x, y):
    X, Y = _dn(x), _dn(y)
    r = torch.tensordot(X, Y, dims=0)
    if x.is_ttm:
        d1, d2 = len(x.N), len(y.N)
        r = r.permute(list(range(d1)) + list(range(2 * d1, 2 * d1 + d2)) + list(range(d1, 2 * d1)) + list(range(2 * d1 + d2, 2 * d1 + 2 * d2)))
    return r


def _dense_sum(x, a):
    X = _dn(x)
    d = len(x.N)
    if a == 'all':
        return X.sum()
    k = 0 if a == 'first' else d - 1
    return X.sum(dim=[k, k + d] if x.is_ttm else [k])


def _dense_diag(x):
    X = _dn(x)
    if x.is_ttm:
        K = [min(m, n) for m, n in zip(x.M, x.N)]
        out = torch.zeros(K, dtype=X.dtype)
        for idx in itertools.product(*[range(k) for k in K]):
            out[idx] = X[idx + idx]
        return out
    out = torch.zeros(list(X.shape) * 2, dtype=X.dtype)
    for idx in itertools.product(*[range(n) for n in X.shape]):
        out[idx + idx] = X[idx]
    return out


def _dense_mprod(x, a):
    k = 0 if a == 'first' else len(x.N) - 1
    X = _dn(x)
    Mx = torch.ones(2, x.N[k], dtype=X.dtype) * 0.5
    return torch.movedim(torch.tensordot(Mx, X, dims=([1], [k])), 0, k)


def _dense_pad(x, a):
    import torch.nn.functional as F
    return F.pad(_dn(x), (1, 1), value=a)


DENSE = {
    'neg': lambda x, a: -_dn(x), 'pos': lambda x, a: _dn(x), 'clone': lambda x, a: _dn(x), 'detach': lambda x, a: _dn(x),
    'conj': lambda x, a: _dn(x).conj(), 'cpu': lambda x, a: _dn(x), 'saveload': lambda x, a: _dn(x), 'pow_none': lambda x, a: _dn(x),
    't': lambda x, a: _dn(x).permute(list(range(len(x.N), 2 * len(x.N))) + list(range(len(x.N)))),
    'to_ttm': lambda x, a: _dn(x).reshape(list(x.N) + [1] * len(x.N)),
    'round': lambda x, a: _dn(x), 'getitem': lambda x, a: _dn(x)[_idx_expr(x, a)], 'sum': _dense_sum,
    'norm': lambda x, a: (_dn(x).abs() ** 2).sum() if a else (_dn(x).abs() ** 2).sum() ** 0.5,
    'full': lambda x, a: _dn(x), 'numpy': lambda x, a: _dn(x),
    'mul_scalar': lambda x, a: _dn(x) * a, 'rmul_scalar': lambda x, a: 2.0 * _dn(x), 'add_scalar': lambda x, a: _dn(x) + a,
    'sub_scalar': lambda x, a: _dn(x) - a, 'rsub_scalar': lambda x, a: a - _dn(x), 'div_scalar': lambda x, a: _dn(x) / float(a),
    'reshape': None, 'permute': lambda x, a: _dn(x).permute(list(range(len(x.N)))[::-1] + ([len(x.N) + i for i in list(range(len(x.N)))[::-1]] if x.is_ttm else [])),
    'to_qtt': None, 'diag': lambda x, a: _dense_diag(x), 'mprod': _dense_mprod, 'ctor_cores': lambda x, a: _dn(x),
    'pad': lambda x, a: _dense_pad(x, a) if not x.is_ttm else None,
    'apply_mask': lambda x, a: _dn(x)[tuple([0] * len(x.N))].repeat(2),
    'to_f32': lambda x, a: _dn(x),
    'add': lambda x, y, a: _dn(x) + _dn(y), 'sub': lambda x, y, a: _dn(x) - _dn(y), 'mul': lambda x, y, a: _dn(x) * _dn(y),
    'matmul': lambda x, y, a: _dense_matmul(x, y), 'kron': lambda x, y, a: _dense_kron(x, y), 'kron_fn': lambda x, y, a: _dense_kron(x, y),
    'dot': lambda x, y, a: (_dn(x) * _dn(y).conj()).sum(), 'cat': lambda x, y, a: torch.cat((_dn(x), _dn(y)), 0),
    'bilinear': lambda x, y, z, a: (_dn(x).conj() * torch.tensordot(_dn(y), _dn(z), dims=(list(range(len(y.N), 2 * len(y.N))), list(range(len(y.N)))))).sum(),
}
SAME_NUMEL = {'reshape', 'to_qtt'}       # the dense counterpart is "same entries in row-major order, shape as returned"


def value_violation(ev, ops, arg, res):
    """compare the result of a (successful) event with its dense definition; returns None or (symptom, detail)"""
    name = ev.name
    if name not in DENSE and name not in SAME_NUMEL:
        return None
    if any(numel(o) > BIG for o in ops):
        return None
    try:
        if name in SAME_NUMEL:
            want = _dn(ops[0])
        else:
            f = DENSE[name]
            want = f(*ops, arg) if f is not None else None
    except Exception as e:
        return None       # the dense model rejects the operands: incompatibility is C18's subject
    if want is None:
        return None
    if isinstance(res, TT):
        if numel(res) > BIG:
            return None
        try:
            got = ref.contract(res.cores)
        except ValueError as e:
            return ('malformed', str(e))
    elif torch.is_tensor(res):
        got = ref.up(res)
    elif isinstance(res, np.ndarray):
        got = ref.up(torch.tensor(res))
    elif isinstance(res, (int, float, complex)):
        got = torch.tensor(res)
    else:
        return None
    want = ref.up(want) if torch.is_tensor(want) else torch.tensor(want)
    if name in SAME_NUMEL:
        if got.numel() != want.numel():
            return ('numel', 'result has %d entries, operand %d' % (got.numel(), want.numel()))
        want = want.reshape(got.shape)
    if got.is_complex() != want.is_complex():
        got, want = got.to(torch.complex128), want.to(torch.complex128)
    if tuple(got.shape) != tuple(want.shape):
        if got.numel() == 1 and want.numel() == 1:
            got, want = got.reshape([]), want.reshape([])
        else:
            return ('shape', 'result shape %s, dense model %s' % (list(got.shape), list(want.shape)))
    # tolerance: roundoff of the lowest-precision operand times a bound on the magnitude of every intermediate (contraction
    # of |cores|), so that cancellation (x - x) and float32 objects are judged on their own scale
    u = max(ref.unit_roundoff(c.dtype) for o in ops for c in o.cores)
    bounds = [max(ref.absbound(o.cores), 1e-300) for o in ops]
    nmax = max([numel(o) for o in ops] + [1])
    if name in ('mul', 'kron', 'kron_fn'):
        S = bounds[0] * bounds[1]
    elif name in ('matmul', 'dot', 'bilinear'):
        S = nmax
        for bb in bounds:
            S = S * bb
    elif name in ('add', 'sub', 'cat'):
        S = bounds[0] + bounds[1]
    elif name == 'norm':
        S = bounds[0] ** 2 * nmax if arg else bounds[0] * nmax ** 0.5
        if not arg and any(c.requires_grad or c.grad_fn is not None for c in ops[0].cores):
            # the differentiable branch forms the Gram chain and takes a square root: for a representation with
            # cancellation (x - x) the attainable accuracy of the norm is sqrt(u) * |cores|, not u * |cores|
            S = S * (1e-3 / u) ** 0.5
    elif name in ('sum', 'mprod'):
        S = bounds[0] * nmax
    else:
        S = bounds[0] + 4.0
    tol = 1e3 * u * S
    if name == 'round':
        tol = (tol + 2.0 * arg[0] * float(torch.linalg.norm(want))) if arg[1] > 10 else None
    if name == 'to_f32':
        tol = 1e3 * 2.0 ** -24 * S
    if name in ('permute', 'reshape', 'to_qtt'):
        tol = tol + 1e-9 * S * nmax ** 0.5
    if tol is None:
        return None
    if want.numel() and not (float((got - want).abs().max()) <= tol):
        return ('value', 'max diff %.3e (tol %.3e)' % (float((got - want).abs().max()), tol))
    return None


def root_event_count(pid, with_slow=True, last_events=None, depth=2):
    evs = enabled_events(init_pool(pid), None, True)
    if last_events is not None:
        evs = [c for c in evs if not c[0].slow and (depth > 1 or c[0].name in last_events)]
    return len(evs)


def run_repeat(pid, name, idx, ai, inpl=None):
    """Sequences on ONE object: E(x), [in-place event on x], E(x) again.  The second application must agree with the dense
    definition on the object's CURRENT value (state cached on the object or keyed by it, memoised orthogonalisations, stale
    flags after set_core / reduce_dims show here).  Returns (transitions, value checks, [(cls, detail)])."""
    pool = init_pool(pid)
    ev = EVBYNAME[name]
    ex = Explorer(pid, 0)
    found = []
    hist = [(name, idx, ai)]
    res1, e1 = ex.apply(pool, ev, idx, ai)
    ntr = 1
    if e1 is not None:
        return ntr, 0, found
    if inpl is not None:
        iname, iai = inpl
        iev = EVBYNAME[iname]
        if iev.enabled is not None and not iev.enabled(pool[idx[0]]):
            return ntr, 0, found
        _, e2 = ex.apply(pool, iev, (idx[0],), iai)
        ntr += 1
        hist.append((iname, (idx[0],), iai))
        if e2 is not None:
            return ntr, 0, found
        if ev.enabled is not None and not ev.enabled(*[pool[i] for i in idx]):
            return ntr, 0, found
    res2, e3 = ex.apply(pool, ev, idx, ai)
    ntr += 1
    hist.append((name, idx, ai))
    if e3 is not None:
        if inpl is None:
            found.append(('repeat.%s.second_call_raises_%s' % (name, exc_name(e3)), '%r | pool %d history %s' % (e3, pid, [list(map(lambda t: list(t) if isinstance(t, tuple) else t, h)) for h in hist])))
        return ntr, 0, found
    vv = value_violation(ev, [pool[i] for i in idx], ev.args[ai], res2)
    if vv:
        tag = 'after_%s' % inpl[0] if inpl else 'second_call'
        found.append(('repeat.%s.%s.%s' % (name, tag, vv[0]), '%s | pool %d history %s' % (vv[1], pid, [[h[0], list(h[1]), h[2]] for h in hist])))
    return ntr, 1, found


def replay_history(pid, hist, monitors=('wf', 'imm')):
    """plain replay without the explorer: apply the events one after the other and run the monitors after each step;
    returns the list of (cls, detail) found"""
    ex = Explorer(pid, 0, True, None, monitors)
    pool = init_pool(pid)
    snaps = [snapshot(x) for x in pool]
    found = []
    for step, (name, idx, ai) in enumerate(hist):
        ev = EVBYNAME[name]
        idx = tuple(idx)
        n0 = len(pool)
        res, e = ex.apply(pool, ev, idx, ai)
        receiver = idx[0] if ev.inplace else None
        for k in range(n0):
            if k == receiver and e is None:
                snaps[k] = snapshot(pool[k])
                continue
            dmsg = snapshot_diff(pool[k], snaps[k])
            if dmsg and 'imm' in monitors:
                role = 'receiver_of_failed_call' if k == receiver else ('operand%d' % idx.index(k) if k in idx else 'bystander')
                found.append(('imm.%s.%s' % (ev.name, role), dmsg))
                snaps[k] = snapshot(pool[k])
        for k in range(n0):
            v = wf_violation(pool[k])
            if v and 'wf' in monitors:
                found.append(('wf.%s.%s.%s' % (ev.name, 'receiver' if k == receiver else 'existing', v[0]), v[1]))
        if isinstance(res, TT):
            v = wf_violation(res)
            if v and 'wf' in monitors:
                found.append(('wf.%s.result.%s' % (ev.name, v[0]), v[1]))
            pool.append(res)
            snaps.append(snapshot(res))
    return found
