"""
The reference model: a TT object is its dense array.  Everything here is the checker's own code on plain torch
tensors; nothing calls into torchtt.
"""
import numpy as np
import torch

DT = {'f64': torch.float64, 'c128': torch.complex128, 'f32': torch.float32, 'c64': torch.complex64}
DTN = {v: k for k, v in DT.items()}


def up(t):
    """reference precision: float64 / complex128"""
    t = t.detach()
    return t.to(torch.complex128) if t.is_complex() else t.to(torch.float64)


def unit_roundoff(dtype):
    return {torch.float64: 2.0 ** -53, torch.complex128: 2.0 ** -53, torch.float32: 2.0 ** -24,
            torch.complex64: 2.0 ** -24}[dtype]


def contract(cores, absolute=False):
    """Dense array of a core list (3-d cores -> N1..Nd ; 4-d cores -> M1..Md,N1..Nd), own left-to-right
    contraction in reference precision.  absolute=True contracts |cores| (a bound on every intermediate)."""
    cs = [up(c) for c in cores]
    if absolute:
        cs = [c.abs() for c in cs]
    ttm = cs[0].dim() == 4
    res = cs[0]
    res = res.reshape(res.shape[1:]) if res.shape[0] == 1 else None
    if res is None:
        raise ValueError('first rank is not 1')
    for c in cs[1:]:
        res = torch.tensordot(res, c, dims=([res.dim() - 1], [0]))
    if res.shape[-1] != 1:
        raise ValueError('last rank is not 1')
    res = res.reshape(res.shape[:-1])
    if ttm:
        d = len(cs)
        res = res.permute([2 * i for i in range(d)] + [2 * i + 1 for i in range(d)])
    return res.contiguous()


def absbound(cores):
    return float(contract(cores, absolute=True).max()) if len(cores) else 0.0


def structure_of(cores):
    """(is_ttm, M, N, R) recomputed from a core list; raises ValueError if the list is not a well-formed chain."""
    if len(cores) == 0:
        raise ValueError('empty core list')
    dims = {c.dim() for c in cores}
    if dims not in ({3}, {4}):
        raise ValueError('cores are not all 3-d or all 4-d: %s' % sorted(dims))
    ttm = dims == {4}
    R = [int(cores[0].shape[0])]
    M, N = [], []
    for k, c in enumerate(cores):
        if int(c.shape[0]) != R[-1]:
            raise ValueError('rank chain broken at core %d' % k)
        R.append(int(c.shape[-1]))
        if ttm:
            M.append(int(c.shape[1]))
            N.append(int(c.shape[2]))
        else:
            N.append(int(c.shape[1]))
    if R[0] != 1 or R[-1] != 1:
        raise ValueError('boundary ranks are not 1')
    return ttm, M, N, R


def op_matrix(dense, d):
    """M1..Md,N1..Nd array -> (prod M) x (prod N) matrix"""
    m = int(np.prod(dense.shape[:d])) if d else 1
    return dense.reshape(m, -1)


def close(a, b, tol):
    """max-norm closeness with absolute tolerance tol (both already in reference precision)"""
    if tuple(a.shape) != tuple(b.shape):
        return False
    if a.numel() == 0:
        return True
    if torch.equal(a, b):
        return True
    if bool(torch.isnan(a).any()) or bool(torch.isnan(b).any()):
        return False
    return bool((a - b).abs().max().item() <= tol)


def maxdiff(a, b):
    if tuple(a.shape) != tuple(b.shape) or a.numel() == 0:
        return float('nan')
    return float((a - b).abs().max())
