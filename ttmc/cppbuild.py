"""
Builds the optional C++ extension (cpp/cpp_ext.cpp -> torchttcpp) from the repository's CURRENT working tree.

setup.py's own flags cannot build against the installed torch (headers need C++20; BLAS/LAPACK given as compile flags
leave dgesv_ etc. unresolved), so the same sources are compiled with -std=c++20 and linked with -lopenblas.  The build
is keyed by a hash of the sources + torch version and kept in <verif>/scratch/cppbuild/<hash>/ (older builds are removed),
so an unchanged tree is not recompiled while any edit under cpp/ triggers a rebuild.
"""
import glob
import hashlib
import os
import shutil
import subprocess
import sys
import tempfile

SETUP = r'''
import sys
from setuptools import setup
from torch.utils.cpp_extension import BuildExtension, CppExtension
setup(name='torchttcpp', version='0',
      ext_modules=[CppExtension('torchttcpp', ['cpp/cpp_ext.cpp'], include_dirs=[%(inc)r],
                                extra_compile_args=['-std=c++20', '-Wno-c++11-narrowing', '-w', '-O2'],
                                extra_link_args=['-lopenblas'])],
      cmdclass={'build_ext': BuildExtension.with_options(use_ninja=False)})
'''


def source_hash(repo):
    import torch
    h = hashlib.sha256(torch.__version__.encode())
    for f in sorted(glob.glob(os.path.join(repo, 'cpp', '*'))):
        if os.path.isfile(f):
            h.update(os.path.basename(f).encode())
            h.update(open(f, 'rb').read())
    return h.hexdigest()[:16]


def build(repo, verif):
    """returns (directory containing torchttcpp*.so, log) or raises RuntimeError"""
    hsh = source_hash(repo)
    base = os.path.join(verif, 'scratch', 'cppbuild')
    out = os.path.join(base, hsh)
    if glob.glob(os.path.join(out, 'torchttcpp*.so')):
        return out, 'cached build ' + hsh
    os.makedirs(base, exist_ok=True)
    for old in os.listdir(base):
        shutil.rmtree(os.path.join(base, old), ignore_errors=True)
    work = tempfile.mkdtemp(prefix='ttmc_cpp_')
    try:
        shutil.copytree(os.path.join(repo, 'cpp'), os.path.join(work, 'cpp'))
        with open(os.path.join(work, 'setup_ttmc.py'), 'w') as f:
            f.write(SETUP % {'inc': os.path.join(work, 'cpp')})
        env = dict(os.environ)
        env['MAX_JOBS'] = '4'
        p = subprocess.run([sys.executable, 'setup_ttmc.py', 'build_ext', '--build-lib', os.path.join(work, 'lib'), '--build-temp',
                            os.path.join(work, 'tmp')], cwd=work, capture_output=True, text=True, env=env)
        sos = glob.glob(os.path.join(work, 'lib', 'torchttcpp*.so'))
        if p.returncode != 0 or not sos:
            raise RuntimeError('C++ build failed:\n' + p.stdout[-3000:] + p.stderr[-3000:])
        os.makedirs(out, exist_ok=True)
        for s in sos:
            shutil.copy(s, out)
        return out, 'built ' + hsh
    finally:
        shutil.rmtree(work, ignore_errors=True)


if __name__ == '__main__':
    d, log = build(os.environ.get('TTMC_REPO', '/repo'), os.environ.get('TTMC_VERIF_DIR', '/verif'))
    print(d, log)
