"""
Structure alphabets and complete enumerators (DESIGN §3.1).  Everything yields plain Python data, simplest first.
"""
import itertools

P = (2, 3, 4, 5, 6, 7)      # default 'distinct' mode sizes per position
Q = (2, 3, 2, 3, 2, 3)      # default interior ranks per bond (distinct neighbours)


def sizes_full(d, alphabet=(1, 2, 3)):
    return [list(t) for t in itertools.product(alphabet, repeat=d)]


def sizes_distinct(d, p=P, offset=0):
    """every position i takes 1 or p[i+offset]"""
    out = []
    for mask in itertools.product((0, 1), repeat=d):
        out.append([p[(i + offset) % len(p)] if m == 0 else 1 for i, m in enumerate(mask)])
    out.sort(key=lambda s: s.count(1))
    return out


def ranks_binary(d, q=Q, offset=0):
    """interior rank k in {1, q_k}; returns full rank lists [1,...,1]"""
    out = []
    for mask in itertools.product((1, 0), repeat=max(d - 1, 0)):
        out.append([1] + [q[(i + offset) % len(q)] if m == 0 else 1 for i, m in enumerate(mask)] + [1])
    return out


def ranks_alphabet(d, alphabet=(1, 2, 3)):
    return [[1] + list(t) + [1] for t in itertools.product(alphabet, repeat=max(d - 1, 0))]


def ranks_dev(d, q=Q, offset=0, maxdev=1):
    """default profile q with at most maxdev bonds set to 1, plus the all-ones profile"""
    base = [q[(i + offset) % len(q)] for i in range(max(d - 1, 0))]
    seen, out = set(), []
    for nd in range(maxdev + 1):
        for pos in itertools.combinations(range(len(base)), nd):
            r = [1] + [1 if i in pos else b for i, b in enumerate(base)] + [1]
            if tuple(r) not in seen:
                seen.add(tuple(r))
                out.append(r)
    ones = [1] * (d + 1)
    if tuple(ones) not in seen:
        out.append(ones)
    return out


def subsets(n, nonempty=False):
    out = []
    for k in range(1 if nonempty else 0, n + 1):
        out += [list(c) for c in itertools.combinations(range(n), k)]
    return out


def ordered_factorisations(n, maxlen=6, minfac=2):
    """all tuples of integers >= minfac with product n"""
    if n == 1:
        return [[]]
    out = []

    def rec(rem, acc):
        if rem == 1:
            out.append(list(acc))
            return
        if len(acc) >= maxlen:
            return
        for f in range(minfac, rem + 1):
            if rem % f == 0:
                rec(rem // f, acc + [f])
    rec(n, [])
    return out


def with_ones(shape, max_ones, maxlen):
    """insert 0..max_ones singleton modes at every position"""
    out, seen = [], set()
    for k in range(max_ones + 1):
        for pos in itertools.combinations_with_replacement(range(len(shape) + 1), k):
            s = list(shape)
            for p in sorted(pos, reverse=True):
                s.insert(p, 1)
            if len(s) <= maxlen and len(s) >= 1 and tuple(s) not in seen:
                seen.add(tuple(s))
                out.append(s)
    return out


def tensor_struct(N, R, dt='f64', fam='int'):
    return {'k': 't', 'N': list(N), 'R': list(R), 'dt': dt, 'fam': fam}


def operator_struct(M, N, R, dt='f64', fam='int'):
    return {'k': 'm', 'M': list(M), 'N': list(N), 'R': list(R), 'dt': dt, 'fam': fam}


def nontrivial(st):
    return any(r > 1 for r in st['R'][1:-1]) and (any(n > 1 for n in st['N']) or any(m > 1 for m in st.get('M', [])))


def skey(st):
    s = '%s%s' % (st['k'], st['N'])
    if st['k'] == 'm':
        s += 'x%s' % (st['M'],)
    return s + 'R%s%s' % (st['R'], st['dt'])
