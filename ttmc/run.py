"""CLI:  python -m ttmc.run C03 --tier quick|thorough [--limit N]    |    python -m ttmc.run --replay <file>"""
import os
import sys
import argparse


def main():
    ap = argparse.ArgumentParser()
    ap.add_argument('prop', nargs='?')
    ap.add_argument('--tier', default=os.environ.get('VERIF_TIER', 'quick'), choices=['quick', 'thorough'])
    ap.add_argument('--replay')
    ap.add_argument('--quiet', action='store_true')
    ap.add_argument('--limit', type=int, default=None, help='debug only: explore a prefix (evidence says not exhaustive)')
    a = ap.parse_args()
    from ttmc import core
    if a.replay:
        sys.exit(core.replay(a.replay, a.quiet))
    if not a.prop:
        ap.error('property id or --replay required')
    seed = int(os.environ.get('VERIF_SEED', '0') or 0)
    mod = 'ttmc.checks.' + a.prop.lower()
    try:
        rc = core.run_check(mod, a.tier, seed, a.limit)
    except Exception:
        import traceback
        print('HARNESS-ERROR: the check could not run to completion')
        traceback.print_exc()
        rc = 2
    sys.exit(rc)


if __name__ == '__main__':
    main()
