"""
E3 — decision-point exploration of the truncation logic (DESIGN §4.1).

TT-SVD, rounding, reshape, permute and to_qtt consult the continuous parameter eps only through
rank_chop(s, tau) with tau = c*eps.  rank_chop is wrapped from outside (module attributes), every call is logged, the
next breakpoint of eps above the current value is computed from ALL tail-energy levels of ALL logged calls, and the walk
continues from there: every distinct sequence of rank decisions that any eps in [start, stop) can produce for the input
is visited, plus the +-2 ulp neighbourhood of every breakpoint (ties).
"""
import math
import numpy as np
import torchtt
import torchtt._decomposition as _dec
import torchtt._extras as _ext
import torchtt._tt_base as _base

_LOG = None
_ORIG = _dec.rank_chop
_PATCHED = False


def _wrapped(s, eps):
    r = _ORIG(s, eps)
    if _LOG is not None:
        _LOG.append((np.array(s, dtype=np.float64, copy=True), float(eps), int(r)))
    return r


def install():
    """wrap rank_chop in every module that holds a by-name reference to it"""
    global _PATCHED, _ORIG
    if _PATCHED:
        return
    _ORIG = _dec.rank_chop
    for mod in (_dec, _ext, _base):
        if getattr(mod, 'rank_chop', None) is _ORIG:
            setattr(mod, 'rank_chop', _wrapped)
    import torchtt._dmrg as _dm
    import torchtt._amen as _am
    import torchtt.interpolate as _ip
    import torchtt.solvers as _so
    for mod in (_dm, _am, _ip, _so):
        if getattr(mod, 'rank_chop', None) is _ORIG:
            setattr(mod, 'rank_chop', _wrapped)
    _PATCHED = True


def logged(fn):
    """run fn() and return (value, exception, log)"""
    global _LOG
    install()
    _LOG = []
    try:
        try:
            v, e = fn(), None
        except Exception as ex:
            v, e = None, ex
        return v, e, _LOG
    finally:
        _LOG = None


def nextafter_k(x, k):
    for _ in range(abs(k)):
        x = math.nextafter(x, math.inf if k > 0 else -math.inf)
    return x


def breakpoints_above(log, eps):
    """all eps* > eps at which some logged call's decision can change, assuming the earlier ones do not"""
    out = []
    for s, tau, r in log:
        if not (tau > 0) or not (eps > 0) or s.size == 0:
            continue
        c = tau / eps
        if not (c > 0) or not math.isfinite(c):
            continue
        sc = np.cumsum(np.abs(s[::-1]) ** 2)[::-1]
        for j in range(s.size):
            if sc[j] > 0:
                e = math.sqrt(float(sc[j])) / c
                if e > eps:
                    out.append(e)
    return out


def walk(run, start=1e-15, stop=1.0, ulps=(-2, -1, 0, 1, 2), max_runs=4000, extra=()):
    """
    run(eps) -> (decision_sequence, payload); must itself use `logged`.
    Yields (eps, kind, seq, log, payload) for every run;  kind in {'interval', 'breakpoint', 'extra'}.
    The generator's .stats (dict) is filled in at the end.
    """
    stats = {'runs': 0, 'intervals': 0, 'breakpoints': 0, 'ties_hit': 0, 'cap_hit': 0, 'seqs': set()}
    walk.last_stats = stats

    def do(eps, kind):
        seq, log, payload = run(eps)
        stats['runs'] += 1
        stats['seqs'].add(seq)
        for s, tau, r in log:
            if s.size and tau > 0:
                sc = np.cumsum(np.abs(s[::-1]) ** 2)[::-1]
                if np.any(sc == tau ** 2):
                    stats['ties_hit'] += 1
        return (eps, kind, seq, log, payload)

    for e in extra:
        yield do(e, 'extra')
    eps = start
    while eps < stop:
        item = do(eps, 'interval')
        stats['intervals'] += 1
        yield item
        cand = breakpoints_above(item[3], eps)
        if not cand:
            break
        nb = min(cand)
        if nb >= stop:
            break
        stats['breakpoints'] += 1
        for k in ulps:
            e = nextafter_k(nb, k)
            if 0 < e < stop and e > eps:
                yield do(e, 'breakpoint')
        # continue just above the neighbourhood: the decisions (hence the later singular values and their breakpoints)
        # may have changed at nb, so the next breakpoint must be recomputed from a run of the new interval
        eps = nextafter_k(nb, max(ulps) + 1)
        if stats['runs'] > max_runs:
            stats['cap_hit'] = 1
            break
