"""Helpers shared by the check modules: building operands, calling the library, comparing with the model."""
import numpy as np
import torch
import torchtt
from . import ref, values

TT = torchtt.TT
EXACT_LIMIT = {torch.float64: 2.0 ** 52, torch.complex128: 2.0 ** 52, torch.float32: 2.0 ** 23, torch.complex64: 2.0 ** 23}


def build(st, role='a', salt=0):
    """returns (TT object, list of the generated cores kept aside as the model's copy)"""
    cores = values.cores_for(st, role, salt)
    keep = [c.clone() for c in cores]
    return torchtt.TT(cores), keep


def call(fn, *a, **k):
    """run a library call; returns (value, exception)"""
    try:
        return fn(*a, **k), None
    except Exception as e:  # noqa: the library may raise anything; the oracle decides what that means
        return None, e


def exc_name(e):
    return type(e).__name__


def V(cls, detail=''):
    return {'cls': cls, 'detail': str(detail)[:600]}


def check_tt(res, want, site, dtype=None, exact=False, bound=1.0, cr=1e3, ttm=None, check_full=True, dtype_ref=None, full_exact=None):
    """Compare a returned TT object with the dense model value `want` (reference precision).
    Returns a list of violations; class names are  <site>.<symptom>."""
    out = []
    if not isinstance(res, TT):
        return [V(site + '.not_a_TT', 'returned %s' % type(res).__name__)]
    try:
        ittm, M, N, R = ref.structure_of(res.cores)
    except ValueError as e:
        return [V(site + '.malformed_cores', e)]
    try:
        rep = (bool(res.is_ttm), list(res.M) if res.is_ttm else [], list(res.N), [int(r) for r in res.R])
    except Exception as e:
        return [V(site + '.metadata_raises', repr(e))]
    if rep != (ittm, M, N, R):
        out.append(V(site + '.metadata_mismatch', 'reported %s, cores give %s' % (rep, (ittm, M, N, R))))
    if ttm is not None and ittm != ttm:
        out.append(V(site + '.kind', 'is_ttm=%s expected %s' % (ittm, ttm)))
    if tuple(M + N) != tuple(want.shape):
        out.append(V(site + '.shape', 'result modes %s, dense model shape %s' % (M + N, list(want.shape))))
        return out
    if dtype is not None:
        dts = {c.dtype for c in res.cores}
        if dts != {dtype}:
            out.append(V(site + '.dtype', 'core dtypes %s expected %s' % (sorted(map(str, dts)), dtype)))
    got = ref.contract(res.cores)
    want = ref.up(want)
    if got.is_complex() != want.is_complex():
        if want.is_complex():
            got = got.to(torch.complex128)
        else:
            want = want.to(torch.complex128)
    dtu = dtype_ref or dtype or res.cores[0].dtype
    if exact and bound < EXACT_LIMIT.get(dtu, 0):
        if not torch.equal(got, want):
            out.append(V(site + '.value', 'bit-exact comparison failed, max diff %.3e (bound %.3g)' % (ref.maxdiff(got, want), bound)))
    else:
        tol = cr * ref.unit_roundoff(dtu) * max(bound, 1e-300)
        if not ref.close(got, want, tol):
            out.append(V(site + '.value', 'max diff %.3e > tol %.3e' % (ref.maxdiff(got, want), tol)))
    if check_full:
        f, e = call(res.full)
        if e is not None:
            out.append(V(site + '.full_raises', repr(e)))
        else:
            tol = cr * ref.unit_roundoff(dtu) * max(bound, 1e-300)
            if tuple(f.shape) != tuple(got.shape):
                out.append(V('full.shape', 'full() has shape %s, cores give %s' % (list(f.shape), list(got.shape))))
            elif not ref.close(ref.up(f).to(got.dtype), got, 0.0 if ((exact if full_exact is None else full_exact) and bound < EXACT_LIMIT.get(dtu, 0)) else tol):
                out.append(V('full.value', 'full() differs from the contraction of the cores by %.3e' % ref.maxdiff(ref.up(f).to(got.dtype), got)))
    return out


def snapshot(tt):
    """frozen record of an operand (C06 style): structure, dtype, versions, values"""
    return {
        'R': [int(r) for r in tt.R], 'N': list(tt.N), 'M': list(tt.M) if tt.is_ttm else None,
        'dt': [str(c.dtype) for c in tt.cores], 'ver': [c._version for c in tt.cores],
        'shapes': [tuple(c.shape) for c in tt.cores],
        'vals': [c.detach().clone() for c in tt.cores], 'n': len(tt.cores), 'ids': [id(c) for c in tt.cores],
    }


def snapshot_diff(tt, snap):
    """returns a short description of what changed, or None"""
    try:
        if len(tt.cores) != snap['n']:
            return 'number of cores %d -> %d' % (snap['n'], len(tt.cores))
        if [int(r) for r in tt.R] != snap['R']:
            return 'R %s -> %s' % (snap['R'], tt.R)
        if list(tt.N) != snap['N']:
            return 'N %s -> %s' % (snap['N'], tt.N)
        if [tuple(c.shape) for c in tt.cores] != snap['shapes']:
            return 'core shapes %s -> %s' % (snap['shapes'], [tuple(c.shape) for c in tt.cores])
        if [str(c.dtype) for c in tt.cores] != snap['dt']:
            return 'dtype changed'
        for k, (c, v) in enumerate(zip(tt.cores, snap['vals'])):
            if not torch.equal(c.detach(), v) and not (torch.isnan(v).any() and torch.isnan(c).any()):
                return 'core %d values changed (max diff %.3e)' % (k, float((c.detach() - v).abs().max()))
        if [c._version for c in tt.cores] != snap['ver']:
            return 'in-place write on a core (version counters %s -> %s)' % (snap['ver'], [c._version for c in tt.cores])
    except Exception as e:
        return 'operand unusable afterwards: %r' % (e,)
    return None
