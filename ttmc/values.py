"""
Deterministic core-value families.  Values are NOT enumerated (DESIGN §3.2): each family is a fixed function of
(structure, role, salt).  'int' gives small-integer (Gaussian-integer for complex) cores for which dense float
arithmetic is exact, so the oracle can be bit equality; 'gauss' is a generic point.
"""
import json
import zlib
import numpy as np
import torch
from .ref import DT


def rng_for(*parts):
    return np.random.RandomState(zlib.crc32(json.dumps(parts, sort_keys=True, default=str).encode()) & 0x7fffffff)


def core_shapes(st):
    R, N = st['R'], st['N']
    if st['k'] == 'm':
        M = st['M']
        return [(R[i], M[i], N[i], R[i + 1]) for i in range(len(N))]
    return [(R[i], N[i], R[i + 1]) for i in range(len(N))]


def _fill(rng, shape, fam, cplx):
    def one():
        if fam == 'int':
            a = rng.randint(-2, 3, size=shape).astype(np.float64)
            if not a.any():
                a.flat[0] = 1.0
            return a
        if fam == 'int1':
            a = rng.randint(-1, 2, size=shape).astype(np.float64)
            if not a.any():
                a.flat[0] = 1.0
            return a
        if fam == 'zero':
            return np.zeros(shape)
        return rng.standard_normal(size=shape)
    a = one()
    if cplx:
        a = a + 1j * one()
    return a


def cores_for(st, role='a', salt=0):
    """list of torch cores for the structure st = {k, N, [M], R, dt, fam}"""
    fam = st.get('fam', 'int')
    dt = DT[st['dt']]
    cplx = dt.is_complex
    rng = rng_for(st['k'], st['N'], st.get('M'), st['R'], st['dt'], fam, role, salt)
    cores = []
    for k, shp in enumerate(core_shapes(st)):
        a = _fill(rng, shp, fam if fam in ('int', 'int1', 'zero', 'gauss') else 'gauss', cplx)
        if fam == 'scaled':
            a = a * (10.0 ** (6 if k % 2 == 0 else -6))
        cores.append(torch.tensor(a, dtype=dt))
    if fam == 'deficient' and len(cores) > 1:
        # make the widest interior bond rank deficient: duplicate one slice of the left core
        k = int(np.argmax(st['R'][1:-1]))
        c = cores[k]
        if c.shape[-1] > 1:
            c[..., -1] = c[..., 0]
    return cores


def dense_tensor(shape, dt, fam='gauss', salt=0, role='d'):
    rng = rng_for('dense', list(shape), dt, fam, salt, role)
    a = _fill(rng, tuple(shape), fam if fam in ('int', 'int1', 'zero') else 'gauss', DT[dt].is_complex)
    return torch.tensor(a, dtype=DT[dt])


# ------------------------------------------------------------------------------------------------ dense families (C01/C02)

def _orth(rng, n, k, cplx=False):
    """n x k matrix with orthonormal columns (k <= n)"""
    a = rng.standard_normal((n, k))
    if cplx:
        a = a + 1j * rng.standard_normal((n, k))
    q, _ = np.linalg.qr(a)
    return q[:, :k]


def dense_family(shape, fam, dt, salt=0):
    """dense array of the given shape from a named family (see DESIGN §3.2); returns a torch tensor of dtype dt"""
    shape = [int(n) for n in shape]
    d = len(shape)
    cplx = DT[dt].is_complex
    rng = rng_for('densefam', shape, fam, dt, salt)
    numel = int(np.prod(shape))

    def rank1(vecs):
        t = np.ones([], dtype=np.complex128 if cplx else np.float64)
        for v in vecs:
            t = np.tensordot(t, v, axes=0)
        return t

    def rvec(n):
        v = rng.standard_normal(n)
        if cplx:
            v = v + 1j * rng.standard_normal(n)
        return v
    if fam == 'zero':
        a = np.zeros(shape)
    elif fam == 'gauss':
        a = rng.standard_normal(shape)
        if cplx:
            a = a + 1j * rng.standard_normal(shape)
    elif fam in ('lowrank', 'lowrank_int'):
        R = [1] + [min(2, int(np.prod(shape[:k + 1])), int(np.prod(shape[k + 1:]))) for k in range(d - 1)] + [1]
        st = {'k': 't', 'N': shape, 'R': R, 'dt': dt, 'fam': 'int' if fam == 'lowrank_int' else 'gauss'}
        cs = cores_for(st, 'lr', salt)
        t = cs[0].numpy()
        for c in cs[1:]:
            t = np.tensordot(t, c.numpy(), axes=([t.ndim - 1], [0]))
        a = t.reshape(shape)
    elif fam == 'decay':
        a = np.zeros(shape, dtype=np.complex128 if cplx else np.float64)
        for k in range(6):
            a = a + (0.05 ** k) * rank1([rvec(n) / np.sqrt(n) for n in shape])
    elif fam == 'flat':
        # every singular value of the first unfolding is exactly 1 (ties)
        n1 = shape[0]
        rest = numel // n1
        if n1 <= rest:
            a = np.eye(n1, rest).reshape(shape)
        else:
            a = np.eye(n1, rest).reshape(shape)
    elif fam == 'flat2':
        # Kronecker delta pairs: singular values of several unfoldings are equal
        a = np.zeros(shape)
        for idx in np.ndindex(*shape):
            if all(idx[i] % 2 == idx[(i + 1) % d] % 2 for i in range(0, d - 1, 2)):
                a[idx] = 1.0
    elif fam == 'saturating':
        delta = 1e-3
        us, vs = [], []
        for n in shape:
            if n >= 2:
                q = _orth(rng, n, 2, cplx)
                us.append(q[:, 0])
                vs.append(q[:, 1])
            else:
                us.append(np.ones(1))
                vs.append(None)
        a = rank1(us)
        for k in range(d - 1):
            if vs[k] is not None and vs[k + 1] is not None:
                f = list(us)
                f[k] = vs[k]
                f[k + 1] = vs[k + 1]
                a = a + delta * rank1(f)
    else:
        raise KeyError(fam)
    return torch.tensor(np.ascontiguousarray(a), dtype=DT[dt])
