"""
Deterministic core-value families.  Values are NOT enumerated (DESIGN §3.2): each family is a fixed function of
(structure, role, salt).  'int' gives small-integer (Gaussian-integer for complex) cores for which dense float
arithmetic is exact, so the oracle can be bit equality; 'gauss' is a generic point.
"""
import json
import zlib
import numpy as np
import torch
from .ref import DT


def rng_for(*parts):
    return np.random.RandomState(zlib.crc32(json.dumps(parts, sort_keys=True, default=str).encode()) & 0x7fffffff)


def core_shapes(st):
    R, N = st['R'], st['N']
    if st['k'] == 'm':
        M = st['M']
        return [(R[i], M[i], N[i], R[i + 1]) for i in range(len(N))]
    return [(R[i], N[i], R[i + 1]) for i in range(len(N))]


def _fill(rng, shape, fam, cplx):
    def one():
        if fam == 'int':
            a = rng.randint(-2, 3, size=shape).astype(np.float64)
            if not a.any():
                a.flat[0] = 1.0
            return a
        if fam == 'int1':
            a = rng.randint(-1, 2, size=shape).astype(np.float64)
            if not a.any():
                a.flat[0] = 1.0
            return a
        if fam == 'zero':
            return np.zeros(shape)
        return rng.standard_normal(size=shape)
    a = one()
    if cplx:
        a = a + 1j * one()
    return a


def cores_for(st, role='a', salt=0):
    """list of torch cores for the structure st = {k, N, [M], R, dt, fam}"""
    fam = st.get('fam', 'int')
    dt = DT[st['dt']]
    cplx = dt.is_complex
    rng = rng_for(st['k'], st['N'], st.get('M'), st['R'], st['dt'], fam, role, salt)
    cores = []
    for k, shp in enumerate(core_shapes(st)):
        a = _fill(rng, shp, fam if fam in ('int', 'int1', 'zero', 'gauss') else 'gauss', cplx)
        if fam == 'scaled':
            a = a * (10.0 ** (6 if k % 2 == 0 else -6))
        cores.append(torch.tensor(a, dtype=dt))
    if fam == 'deficient' and len(cores) > 1:
        # make the widest interior bond rank deficient: duplicate one slice of the left core
        k = int(np.argmax(st['R'][1:-1]))
        c = cores[k]
        if c.shape[-1] > 1:
            c[..., -1] = c[..., 0]
    return cores


def dense_tensor(shape, dt, fam='gauss', salt=0, role='d'):
    rng = rng_for('dense', list(shape), dt, fam, salt, role)
    a = _fill(rng, tuple(shape), fam if fam in ('int', 'int1', 'zero') else 'gauss', DT[dt].is_complex)
    return torch.tensor(a, dtype=DT[dt])
