"""
Shared driver of the bounded-exhaustive explorer.

A check module (ttmc/checks/cNN.py) defines

    PROPERTY = 'C03'
    def cases(tier, seed)      -> iterable of JSON-serialisable case descriptions, simplest first; the
                                  enumeration is a fixed finite set, it never depends on the seed
    def run_case(case)         -> Outcome (see below); executes the real library in lock-step with the dense
                                  reference model and evaluates the oracle

and optionally  RULE (text), ASSUMPTIONS (list), BOUNDS(tier) (dict written into the evidence).

The driver shards the enumeration over worker processes, aggregates the coverage counters, matches
violations against /verif/known_findings.json, re-executes every unlisted violation in a fresh process,
writes the replay files and the evidence file, and prints VIOLATION / KNOWN-FINDING lines.

Exit codes: 0 held on everything explored; 1 unlisted violation(s); 2 harness error.
"""
import os
import sys
import json
import time
import hashlib
import importlib
import itertools
import subprocess
import traceback
import multiprocessing as mp

VERIF = os.environ.get('TTMC_VERIF_DIR', os.path.dirname(os.path.dirname(os.path.abspath(__file__))))
NPROC = int(os.environ.get('TTMC_NPROC', '16'))
MAX_REPLAYS = 20


class Outcome(dict):
    """What one explored case reports.

    key          canonical key of the abstract state(s) visited (string or list of strings)
    nontrivial   bool, by the rule of the check
    outcome      short string, the observable outcome class (result ranks, exception class, ...)
    transitions  number of real library calls executed
    compared     number of lock-step model/implementation comparisons
    violations   list of {'cls': <site.predicate.symptom>, 'detail': <text>}
    extra        free dict of counters that the driver sums up
    """

    def __init__(self, key, nontrivial=True, outcome='', transitions=1, compared=1, violations=None, extra=None, nt_keys=None):
        super().__init__(key=key, nontrivial=bool(nontrivial), outcome=str(outcome), transitions=int(transitions),
                         compared=int(compared), violations=violations or [], extra=extra or {}, nt_keys=nt_keys)


class HarnessError(Exception):
    pass


# ------------------------------------------------------------------------------------------------ workers

_MOD = None


def _die_with_parent():
    """workers and their forked children must not outlive a killed driver (a worker stuck in a non-returning library call
    would otherwise spin forever)"""
    try:
        import ctypes
        import signal
        ctypes.CDLL('libc.so.6').prctl(1, signal.SIGKILL)      # PR_SET_PDEATHSIG
    except Exception:
        pass


def _init_worker(modname):
    global _MOD
    _die_with_parent()
    import torch
    torch.set_num_threads(1)
    import warnings
    warnings.filterwarnings('ignore')
    _MOD = importlib.import_module(modname)
    if hasattr(_MOD, 'init_worker'):
        _MOD.init_worker()


def _global_state():
    import torch
    return {'torch_default_dtype': str(torch.get_default_dtype()), 'torch_grad_enabled': bool(torch.is_grad_enabled()),
            'torch_deterministic_algorithms': bool(torch.are_deterministic_algorithms_enabled())}


def _run_inline(chunk):
    """runs the cases of a chunk; after every case the interpreter-wide state a library call must not leave changed (torch
    default dtype, grad mode, ...) is compared with the state at the start: a change is a violation attributed to that case
    (class global_state.<what>_changed) and the state is restored so that the following cases are not affected"""
    out = []
    for idx, case in chunk:
        try:
            out.append((idx, case, run_guarded(_MOD, case), None))
        except Exception:
            out.append((idx, case, None, traceback.format_exc()))
    return out


def run_guarded(mod, case):
    import torch
    g0 = _global_state()
    r = dict(mod.run_case(case))
    g1 = _global_state()
    if g1 != g0:
        for k in g0:
            if g1[k] != g0[k]:
                r.setdefault('violations', []).append({'cls': 'global_state.%s_changed' % k, 'detail': '%s -> %s after this case' % (g0[k], g1[k])})
        torch.set_default_dtype({'torch.float32': torch.float32, 'torch.float64': torch.float64}.get(g0['torch_default_dtype'], torch.float32))
        torch.set_grad_enabled(g0['torch_grad_enabled'])
    return r


def _budget():
    return float(os.environ.get('TTMC_CASE_BUDGET', '180'))


def _fork_run(chunk, budget):
    """run the chunk in a forked child; returns the result list, or None when the child hung (killed after `budget` seconds)
    or died.  A library call that never returns (e.g. LAPACK looping on NaNs) cannot be interrupted from Python, so the
    watchdog has to be another process."""
    import pickle
    import select
    import signal
    r, w = os.pipe()
    pid = os.fork()
    if pid == 0:
        code = 0
        _die_with_parent()
        try:
            os.close(r)
            data = pickle.dumps(_run_inline(chunk))
            with os.fdopen(w, 'wb') as f:
                f.write(data)
        except BaseException:
            code = 3
        os._exit(code)
    os.close(w)
    buf = b''
    deadline = time.time() + budget
    ok = True
    while True:
        left = deadline - time.time()
        if left <= 0:
            ok = False
            break
        rd, _, _ = select.select([r], [], [], min(left, 5.0))
        if rd:
            part = os.read(r, 1 << 20)
            if not part:
                break
            buf += part
    os.close(r)
    if not ok:
        try:
            os.kill(pid, signal.SIGKILL)
        except OSError:
            pass
    _, status = os.waitpid(pid, 0)
    if not ok or os.WIFSIGNALED(status) or os.WEXITSTATUS(status) != 0 or not buf:
        return None
    try:
        return pickle.loads(buf)
    except Exception:
        return None


def _run_chunk(chunk):
    if os.environ.get('TTMC_NO_FORK'):
        return _run_inline(chunk)
    res = _fork_run(chunk, max(_budget(), 30.0 * len(chunk)))
    if res is not None:
        return res
    # something in this chunk hung or killed the process: isolate the culprit case by case
    out = []
    for item in chunk:
        one = _fork_run([item], _budget())
        if one is None:
            out.append((item[0], item[1], None, 'TIMEOUT-OR-CRASH: the case did not return within %.0f s (or the process died) when run alone' % _budget()))
        else:
            out += one
    return out


def _chunks(it, n):
    it = iter(it)
    while True:
        c = list(itertools.islice(it, n))
        if not c:
            return
        yield c


def _h(s):
    return hashlib.blake2b(s.encode(), digest_size=8).digest()


def _parallel(modname, nproc, chunks, harness):
    """ordered-agnostic parallel map over chunks with a bounded window; a dying worker (segfault, OOM kill) is a harness
    error attributed to the chunks in flight, never a hang"""
    import concurrent.futures as cf
    from concurrent.futures.process import BrokenProcessPool
    ctx = mp.get_context('spawn')
    ex = cf.ProcessPoolExecutor(nproc, mp_context=ctx, initializer=_init_worker, initargs=(modname,))
    pending = {}
    it = iter(chunks)
    exhausted = False
    try:
        while True:
            while not exhausted and len(pending) < 4 * nproc:
                try:
                    c = next(it)
                except StopIteration:
                    exhausted = True
                    break
                pending[ex.submit(_run_chunk, c)] = c
            if not pending:
                break
            done, _ = cf.wait(list(pending), return_when=cf.FIRST_COMPLETED)
            for f in done:
                c = pending.pop(f)
                try:
                    yield f.result()
                except BrokenProcessPool:
                    harness.append((c[0][0], c[0][1], 'a worker process died (crash or out of memory) while this chunk was in flight'))
                    for g, cc in list(pending.items()):
                        pending.pop(g)
                    return
    finally:
        ex.shutdown(wait=False, cancel_futures=True)


# ------------------------------------------------------------------------------------------------ known findings

def load_known(prop):
    path = os.path.join(VERIF, 'known_findings.json')
    if not os.path.exists(path):
        return {}
    with open(path) as f:
        data = json.load(f)
    return {e['cls']: e for e in data.get('known', []) if e['property'] == prop}


# ------------------------------------------------------------------------------------------------ driver

def run_check(modname, tier, seed, limit=None, only_cls=None):
    t0 = time.time()
    mod = importlib.import_module(modname)
    prop = mod.PROPERTY
    known = load_known(prop)

    states = set()
    nontrivial = set()
    outcomes = {}
    evaluations = 0
    transitions = 0
    compared = 0
    extra = {}
    samples = []
    viol = {}      # cls -> list of (idx, case, detail)
    harness = []
    timeouts = []

    gen = enumerate(mod.cases(tier, seed))
    if limit:
        gen = itertools.islice(gen, limit)
    chunk = getattr(mod, 'CHUNK', 64)
    nproc = min(NPROC, getattr(mod, 'MAX_PROCS', NPROC))
    if 'TTMC_CASE_BUDGET' not in os.environ:
        # inherited by the workers (watchdog per case); the thorough tiers hold much larger cases (history subtrees)
        os.environ['TTMC_CASE_BUDGET'] = str(mod.CASE_BUDGET(tier) if hasattr(mod, 'CASE_BUDGET') else (180 if tier == 'quick' else 1200))

    for res in _parallel(modname, nproc, _chunks(gen, chunk), harness):
        for idx, case, r, err in res:
            evaluations += 1
            if err is not None:
                (timeouts if err.startswith('TIMEOUT-OR-CRASH') else harness).append((idx, case, err))
                continue
            keys = r['key'] if isinstance(r['key'], list) else [r['key']]
            hk = [_h(k) for k in keys]
            states.update(hk)
            if r.get('nt_keys') is not None:
                nontrivial.update(_h(k) for k in r['nt_keys'])
            elif r['nontrivial']:
                nontrivial.update(hk)
            outcomes[r['outcome']] = outcomes.get(r['outcome'], 0) + 1
            transitions += r['transitions']
            compared += r['compared']
            for k, v in r['extra'].items():
                extra[k] = extra.get(k, 0) + v
            if idx < 3 or (len(samples) < 6 and idx % 997 == (seed % 997)):
                samples.append({'case': case, 'outcome': r['outcome']})
            for v in r['violations']:
                viol.setdefault(v['cls'], []).append((idx, case, v.get('detail', '')))

    if harness:
        harness.sort(key=lambda t: t[0])
        print('HARNESS-ERROR: %d case(s) failed inside the checker itself; first:' % len(harness))
        print(json.dumps(harness[0][1]))
        print(harness[0][2])

    if timeouts:
        timeouts.sort(key=lambda t: t[0])
        print('HARNESS-NOTE: %d case(s) hung or crashed the interpreter and were killed by the watchdog; first: %s'
              % (len(timeouts), json.dumps(timeouts[0][1])[:400]))

    # ---- classify violations
    new_cls = sorted(c for c in viol if c not in known)
    known_hit = sorted(c for c in viol if c in known)
    for c in known_hit:
        e = known[c]
        print('KNOWN-FINDING: property=%s %s [%s] (%d explored cases)' % (prop, e['what'], c, len(viol[c])))

    reported = 0
    unrepro = 0
    rdir = os.path.join(VERIF, 'replays', prop)
    if os.path.isdir(rdir):
        for old in os.listdir(rdir):          # replay files of earlier runs of this tier are stale now
            if old.startswith(tier + '_'):
                try:
                    os.remove(os.path.join(rdir, old))
                except OSError:
                    pass
    for c in new_cls:
        lst = sorted(viol[c], key=lambda t: t[0])
        if reported >= MAX_REPLAYS:
            break
        idx, case, detail = lst[0]
        os.makedirs(rdir, exist_ok=True)
        path = os.path.join(rdir, '%s_%s.json' % (tier, hashlib.md5(c.encode()).hexdigest()[:10]))
        with open(path, 'w') as f:
            json.dump({'property': prop, 'module': modname, 'cls': c, 'detail': detail, 'case': case,
                       'count_in_run': len(lst), 'case_index': idx}, f, indent=1)
        # re-execute in a fresh process: the same case must fail the same way
        rc = subprocess.run([sys.executable, '-m', 'ttmc.run', '--replay', path, '--quiet'],
                            capture_output=True, text=True)
        if rc.returncode != 1:
            unrepro += 1
            print('HARNESS-ERROR: violation class %s did not reproduce in a fresh process (rc=%d)\n%s%s'
                  % (c, rc.returncode, rc.stdout[-2000:], rc.stderr[-2000:]))
            continue
        print('VIOLATION property=%s replay=%s' % (prop, path))
        print('   class=%s cases=%d first: %s' % (c, len(lst), detail[:300]))
        reported += 1

    anchor_cov = {}
    if not os.environ.get('TTMC_NO_COVERAGE') and not new_cls and not harness:
        try:
            anchor_cov = anchor_coverage(mod, prop, tier, seed, evaluations)
        except Exception as e:       # the vacuity guard must never turn a verdict into an error
            anchor_cov = {'error': repr(e)[:200]}
    wall = time.time() - t0
    bounds = mod.BOUNDS(tier) if hasattr(mod, 'BOUNDS') else {}
    cov = {
        'states': len(states),
        'transitions': transitions,
        'traces_validated_against_impl': compared,
        'evaluations': evaluations,
        'distinct_nontrivial': len(nontrivial),
        'rule': getattr(mod, 'RULE', ''),
        'samples': samples[:6],
        'exhaustive': bool(not limit and not extra.get('cap_hit', 0) and not timeouts and not harness),
        'cases_killed_by_watchdog': len(timeouts),
        'bounds': bounds,
        'distinct_outcomes': len(outcomes),
        'outcome_histogram_top': sorted(outcomes.items(), key=lambda kv: -kv[1])[:12],
        'counters': extra,
        'anchor_line_coverage': anchor_cov,
        'known_findings_hit': {c: len(viol[c]) for c in known_hit},
        'new_violation_classes': {c: len(viol[c]) for c in new_cls},
        'workers': nproc,
    }
    ev = {
        'property_id': prop,
        'tier': tier,
        'seed': int(seed),
        'level': 'model_checking',
        'coverage': cov,
        'assumptions': list(getattr(mod, 'ASSUMPTIONS', [])) + COMMON_ASSUMPTIONS,
        'wall_s': round(wall, 2),
        'violations': sum(len(viol[c]) for c in new_cls),
    }
    os.makedirs(os.path.join(VERIF, 'evidence'), exist_ok=True)
    with open(os.path.join(VERIF, 'evidence', prop + '.json'), 'w') as f:
        json.dump(ev, f, indent=1, default=str)
    print('%s tier=%s seed=%d: cases=%d states=%d transitions=%d compared=%d nontrivial=%d outcomes=%d '
          'known=%d new=%d wall=%.1fs' % (prop, tier, seed, evaluations, len(states), transitions, compared,
                                        len(nontrivial), len(outcomes), len(known_hit), len(new_cls), wall))
    if reported > 0:
        return 1            # confirmed, replayable violations take precedence over cases that could not be judged
    if harness or unrepro or timeouts:
        return 2
    return 0


COMMON_ASSUMPTIONS = [
    'small-scope bound: only the structures / histories / decision sequences inside the stated bounds are covered',
    'core values are not enumerated: fixed deterministic value families (exact small-integer cores and a generic '
    'Gaussian point); identities are polynomial in the core entries',
    'CPU only; torch dense kernels, LAPACK and the reference contraction in ttmc/ref.py are trusted',
]


def anchor_coverage(mod, prop, tier, seed, total, budget_s=12.0, max_cases=400):
    """Vacuity guard: line coverage of the functions the property is anchored in (properties.jsonl, anchors.mechanism),
    measured with coverage.py on a strided sample of this run's own cases executed again in this process.  A lower bound
    on what the full enumeration executed."""
    import ast
    import re
    import coverage
    repo = os.environ.get('TTMC_REPO', '/repo')
    rec = None
    with open(os.path.join(VERIF, 'properties.jsonl')) as f:
        for line in f:
            r = json.loads(line)
            if r['id'] == prop:
                rec = r
    wanted = {}          # file -> set of function names
    for m in rec['anchors']['mechanism']:
        cur = None
        for part in re.split(r'[,;]', m['where']):
            part = part.strip()
            mm = re.match(r'(torchtt/\S+\.py)', part)
            if mm:
                cur = mm.group(1)
            for fn in re.findall(r'\(([A-Za-z_][A-Za-z_0-9\.]*)', part):
                if cur:
                    wanted.setdefault(cur, set()).add(fn.split('.')[-1])
    if not wanted:
        return {}
    if hasattr(mod, 'init_worker'):
        mod.init_worker()
    cov = coverage.Coverage(data_file=None, include=[os.path.join(repo, 'torchtt', '*')])
    stride = max(1, total // max_cases)
    t0 = time.time()
    n = 0
    cov.start()
    try:
        for idx, case in enumerate(mod.cases(tier, seed)):
            if idx % stride:
                continue
            try:
                mod.run_case(case)
            except Exception:
                pass
            n += 1
            if time.time() - t0 > budget_s:
                break
    finally:
        cov.stop()
    out = {'_sample_cases': n, '_stride': stride}
    for rel, names in sorted(wanted.items()):
        path = os.path.join(repo, rel)
        if not os.path.exists(path):
            continue
        try:
            _, stmts, _, missing, _ = cov.analysis2(path)
        except Exception:
            stmts, missing = [], []
        tree = ast.parse(open(path).read())
        for node in ast.walk(tree):
            if isinstance(node, (ast.FunctionDef,)) and node.name in names:
                body = [l for l in stmts if node.lineno < l <= node.end_lineno]
                if body:
                    hit = [l for l in body if l not in set(missing)]
                    out['%s:%s' % (rel, node.name)] = [len(hit), len(body)]
    return out


def replay(path, quiet=False):
    with open(path) as f:
        rec = json.load(f)
    if rec['module'].endswith('.c17'):
        # the compiled backend has to be on sys.path before torchtt is imported
        from . import cppbuild
        os.environ['TTMC_CPP_DIR'] = cppbuild.build(os.environ.get('TTMC_REPO', '/repo'), VERIF)[0]
    import torch
    torch.set_num_threads(1)
    mod = importlib.import_module(rec['module'])
    if hasattr(mod, 'init_worker'):
        mod.init_worker()
    if ' | pool ' in rec.get('detail', '') and ' history ' in rec['detail']:
        # a violation found by the history explorer: replay the minimal history with plain calls, no search
        try:
            from . import explore
            tail = rec['detail'].split(' | pool ')[-1]
            pid = int(tail.split(' history ')[0])
            hist = json.loads(tail.split(' history ')[1])
            mons = ('wf', 'imm')
            found = explore.replay_history(pid, [(h[0], tuple(h[1]), h[2]) for h in hist], mons)
            if not quiet:
                print('plain replay of the history on pool %d:' % pid)
                for step, h in enumerate(hist):
                    print('   step %d: %s on objects %s (argument #%d)' % (step + 1, h[0], h[1], h[2]))
                print('   monitors after the replay:', found if found else 'no wf/imm violation (value violations are reported by the search below)')
        except Exception as e:
            if not quiet:
                print('plain replay failed:', repr(e))
    r = run_guarded(mod, rec['case'])
    cls = [v['cls'] for v in r['violations']]
    if not quiet:
        print(json.dumps({'case': rec['case'], 'expected_class': rec['cls'], 'observed': r['violations'],
                          'outcome': r['outcome']}, indent=1, default=str))
    if rec['cls'] in cls:
        if not quiet:
            print('VIOLATION property=%s replay=%s' % (rec['property'], path))
        return 1
    return 0 if not cls else 3
