"""
Second tier of the value properties ("start from non-initial states too"): the explicit-state explorer of ttmc/explore.py
runs every history of depth 2 whose LAST event belongs to the property, and compares that event's result with its dense
definition applied to the dense values of its operands as they are in that state (views, non-contiguous cores, rounded,
sliced, padded, reshaped objects, results of in-place modification, ...).
"""
import json
from . import explore
from .core import Outcome
from .lib import V

EVENTS = {
    'C02': ['round'],
    'C03': ['add', 'sub', 'mul', 'neg', 'pos', 'mul_scalar', 'rmul_scalar', 'add_scalar', 'sub_scalar', 'rsub_scalar', 'div_scalar', 'kron', 'kron_fn', 'pow_none', 'full', 'numpy'],
    'C04': ['matmul', 't', 'add', 'sub', 'mul', 'neg', 'mul_scalar', 'add_scalar', 'sub_scalar', 'div_scalar'],
    'C07': ['sum', 'norm', 'dot', 'bilinear'],
    'C08': ['getitem', 'apply_mask'],
    'C09': ['cat', 'pad', 'diag', 'mprod', 'to_ttm', 'conj', 'clone'],
    'C10': ['reshape', 'permute', 'to_qtt'],
    'C19': ['saveload', 'clone', 'detach', 'cpu', 'to_f32', 'numpy'],
}


def cases(prop, tier):
    depth = 2 if tier == 'quick' else 3
    for pid in range(explore.NPOOLS):
        dp = 2 if pid == 5 else depth          # pool 5 (order 4, uniform structure): depth 2 in both tiers
        n = explore.root_event_count(pid, True, set(EVENTS[prop]), dp)
        for i in range(n):
            yield {'g': 'E2', 'pid': pid, 'first': i, 'depth': dp}
    yield from repeat_cases(prop)


INPLACE = [('set_core', 0), ('set_core', 1), ('reduce_dims', 0), ('watch', 0)]


def repeat_cases(prop):
    """E(x), E(x) and E(x), in-place(x), E(x) for every event of the property on every pool object"""
    for pid in range(explore.NPOOLS):
        pool = explore.init_pool(pid)
        for (ev, idx, ai) in explore.enabled_events(pool, None, False):
            if ev.name not in EVENTS[prop] or ev.inplace:
                continue
            yield {'g': 'E2R', 'pid': pid, 'ev': ev.name, 'idx': list(idx), 'ai': ai, 'inpl': None}
            for ip in INPLACE:
                yield {'g': 'E2R', 'pid': pid, 'ev': ev.name, 'idx': list(idx), 'ai': ai, 'inpl': list(ip)}


def run_repeat_case(prop, c):
    ntr, nchk, found = explore.run_repeat(c['pid'], c['ev'], tuple(c['idx']), c['ai'], tuple(c['inpl']) if c['inpl'] else None)
    key = 'E2R|%d|%s|%s|%s|%s' % (c['pid'], c['ev'], c['idx'], c['ai'], c['inpl'])
    return Outcome(key, True, 'repeat', transitions=ntr, compared=nchk, violations=[V('history.' + cls, d) for cls, d in found])


def run_case(prop, c):
    if c.get('g') == 'E2R':
        return run_repeat_case(prop, c)
    ex = explore.Explorer(c['pid'], c['depth'], False, None, ('val',), set(EVENTS[prop]))
    ex.run_root(c['first'])
    viol = [V('history.' + (cls[4:] if cls.startswith('val.') else cls), '%s | pool %d history %s' % (detail, c['pid'], json.dumps(hist)))
            for cls, (hist, detail) in ex.viol.items() if cls.startswith('val.') or cls.startswith('glob.')]
    return Outcome(sorted('E2|' + k for k in ex.states), True, 'history', transitions=ex.transitions, compared=ex.value_checks, violations=viol,
                   nt_keys=sorted('E2|' + k for k in ex.nontrivial_states), extra={'history_value_checks': ex.value_checks})
