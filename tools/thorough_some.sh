#!/bin/bash
# usage: tools/thorough_some.sh C07 C09 ...   runs the thorough tier of the named checks, one line each
cd "$(dirname "$0")/.."
for id in "$@"; do
  out=$(./check $id --tier thorough 2>&1); rc=$?
  echo "$id rc=$rc $(echo "$out" | grep -v KNOWN-FINDING | tail -1)"
  echo "$out" | grep -E "^(VIOLATION|HARNESS)" | head -5
done
