#!/bin/bash
# runs the quick (or $1) tier of every claimed check and prints one line per property
cd "$(dirname "$0")/.."
tier="${1:-quick}"
for id in $(python3 -c "import json;print(' '.join(c['property_id'] for c in json.load(open('MANIFEST.json'))['checks']))"); do
  out=$(./check $id --tier $tier 2>&1); rc=$?
  echo "$id rc=$rc $(echo "$out" | tail -1)"
  echo "$out" | grep -E "^(VIOLATION|KNOWN-FINDING|HARNESS)" | head -5
done
