#!/usr/bin/env python3
"""Regenerates /verif/MANIFEST.json from the table below (run after adding a check)."""
import json, os
HERE = os.path.dirname(os.path.dirname(os.path.abspath(__file__)))

E1 = 'bounded exhaustive enumeration of input structures on the real library, lock-step dense reference model'
E1H = E1 + '; second tier: explicit-state search over call histories whose last event belongs to the property'
E2 = 'explicit-state (stateless, depth-first with replay) search over all call histories up to a depth bound on the real library, monitors on every live object in every state'
E3 = 'exhaustive exploration of every rank-decision sequence over the eps continuum (decision-point walk) x structure enumeration'
E3H = E3 + '; second tier: explicit-state search over call histories whose last event belongs to the property'

CHECKS = {
 # id: (technique, level text, level note, design ref)
 'C03': (E1H, 'All operand-pair structures (orders 1..4 quick / 1..5 thorough, singleton modes, rank profiles, every broadcast alignment, scalar kinds, dtypes) x all arithmetic operations are executed and compared bit-for-bit (small-integer cores) or to roundoff (generic cores) with dense arithmetic; rank law and dtype checked. Uniform structures n^d (d=4,5) with uniform ranks for both operands.',
         'values are fixed generic/integer families, not enumerated (identities are polynomial in the cores); torch dense kernels trusted', '§5 C03'),
}
CHECKS.update({
 'C04': (E1H, 'All rectangular operator/vector/operator structures (orders 1..3 quick / 1..4 thorough; row, column and inner sizes distinct per position; every singleton substitution; rank profiles; dense operands with 0..3 batch dims) x all operator operations compared bit-for-bit / to roundoff with the dense operator expression; product rank law and dtype checked. Uniform square structures (orders 3..4) with uniform ranks for both operands.',
         'values not enumerated (polynomial identities); torch dense kernels trusted', '§5 C04'),
 'C07': (E1H, 'norm (plain/squared x autograd off/leaf/non-leaf), dot (full and over EVERY axis subset), sum (all and EVERY axis subset, int and list form), bilinear_form on all structures of order 1..4 (5 thorough) tensors and 1..3 operators, real/complex/zero, compared with dense reductions incl. result shape. The empty subset of summed modes included.',
         'values not enumerated; scalar results accepted as 0-d/1-element tensors or numbers', '§5 C07'),
 'C08': (E1H, 'ALL full-length index tuples over the per-mode alphabet {0,-1,mid,:,1:,0:1,::2,:-1} with 0..2 None insertions at every position and leading/trailing Ellipsis, on every structure of order 1..3 (4 thorough), plus operator (int,int)/(slice,slice) pairs and apply_mask with every 1-/2-row index matrix: shape (every axis) and bits equal dense[index].',
         'partial index tuples (shorter than the order, no Ellipsis) not enumerated; int64 index matrices', '§5 C08'),
})
CHECKS.update({
 'C09': (E1H, 'cat (every axis, 2..3 operands with distinct sizes), pad (every trailing subset of modes, widths {0,1,2}^2, fill 0 and non-zero, tensors and operators with the block oracle of the statement), diag (both directions, rectangular too), mprod (every mode and every subset/order of modes), to_ttm, conj, clone on all structures of order 1..3 (4 thorough), bit-equal to the dense operation. cat also on uniform structures (orders 3..5, one core shape).',
         'operator pad: padded diagonal entries outside the two corner blocks are unconstrained by the statement and not compared', '§5 C09'),
 'C18': (E1, 'Every public entry point x every incompatibility class (mismatch at each position incl. against size-1 modes, order/kind/type mismatch, out-of-range index/axis/mode/dim, element-count mismatch, bad rank lists, mis-shaped cores) on orders 1..3: must raise (validity decided by the dense model), documented cases must raise a library exception type, operands unchanged. Indices addressing too few modes padded with new-axis entries on rank-1 and rank-2 operands.',
         'documented-case table transcribed from docstrings; dense-valid but undocumented arguments only need to raise or agree', '§5 C18'),
 'C19': (E1H, 'save->load, clone, detach, to(dtype), cpu, numpy on all structures order 1..4 (6 thorough) x dtype x provenance (leaf, TT-SVD, truncated TT-SVD, slice view, t(), conj(), detached, rounded, summed): (provenance also: TT-SVD cut by a binding rank cap, scalar and per-bond) bit-identical cores and metadata, disjoint storage for clone, source untouched.',
         'CPU only', '§5 C19'),
 'C20': (E1, 'All size_in/size_out lists of 1..3 (4 thorough) modes with every singleton substitution, all rank profiles over {1,2,3}, batch ranks 0..3, float32/float64, He/Glo: forward value, parameter registration and all parameter gradients equal those of the dense affine map contracted from the layer\'s own cores.',
         'bias overwritten with a non-zero tensor; torch RNG seeded', '§5 C20'),
})
CHECKS.update({
 'C01': (E3, 'For every enumerated dense input (orders 1..4 quick / 1..6 thorough, all {1,2,3}^d shapes for d<=3, operator shapes, torch/numpy sources, shape-argument forms, f64/c128/f32, spectra: exact low rank, full, decaying, flat (ties), saturating, zero) the explorer visits EVERY rank-decision sequence that any eps in (0,1) can produce, and the +-2 ulp neighbourhood of every breakpoint, for rmax in {inf,1,2,per-bond list}; shape, error <= eps|A|, rank <= rmax, rank <= exact unfolding rank are checked on every run.',
         'rank_chop observed through a wrapper installed from outside; breakpoints computed from all tail-energy levels of all logged calls; checker SVD for exact ranks', '§4.1, §5 C01'),
 'C02': (E3H, 'Same decision walk (plus eps=0) on x.round(eps,rmax) for raw random / badly scaled / rank-deficient / over-parameterised / zero / inflated (x+x-x) / TT-SVD-provenance inputs, tensors and operators, orders 1..4 (7 thorough): shape, error bound, R_out<=R_in, <=rmax, <=exact unfolding rank, operand snapshot (values, ranks, version counters) unchanged after every run. Scaled families at 1e-13/1e+13 and 1e-30/1e+30.',
         'as C01', '§4.1, §5 C02'),
 'C10': (E3H, 'reshape: ALL ordered pairs of ordered factorisations (with inserted singleton modes) of the element counts {4,6,8,12} (to 36 thorough), tensors and operators; permute: ALL permutations up to order 4 (6 thorough), tensors and operators; to_qtt/qtt_to_tens: all shapes over {1,2,4,8}(16) and mode_size 3 powers; exact mode sizes and value within C*eps incl. complex phase; loose eps by the complete decision walk on [1e-8,0.3).',
         'error budget constants C from DESIGN §5 C10', '§5 C10'),
})
EM = 'bounded exhaustive enumeration of operand structures x finite menus (eps, internal RNG seeds, initial guesses, solver options) on the real library, dense reference'
CHECKS.update({
 'C11': (EM, 'fast_matvec, dmrg_hadamard, amen_mv, amen_mm on all operand structures of order 1..4 (6 thorough) with rectangular distinct modes and singleton substitutions, ranks {1,2,4}x{1,3}, exact-rank and decaying cores, eps in {1e-12,1e-8,1e-4,1e-1}, seeds 0..2 (0..7), initial guess in {none, rank 1, rank 5, zero}, real and complex (DMRG): shape and error <= 10*eps. Sweep budget nswp in {1,2,3} for the two DMRG routines wherever one sweep suffices (order 2 with any guess; orders 2..4 with the exact product as guess).',
         'finite seed menu covered completely; python backend', '§5 C11'),
 'C12': (EM, 'Every amen_solve configuration with <= 3 (4 thorough) deviations from the default over the axes order, sizes, system class (Laplacian, diagonally dominant, SPD, non-symmetric convection-diffusion), operator rank, rhs rank, eps, preconditioner {None,c,r}, local solver {direct, GMRES, BiCGSTAB}, initial guess, seed; plus the full product class x solver x preconditioner x eps on large modes (12,10[,11]) and 12^3 systems that need several GMRES cycles: dense residual <= 100*eps. One known finding (BiCGSTAB local solver) is listed in known_findings.json. Every configuration with a user-supplied x0 also runs a second solve with another right-hand side and the SAME x0 object.',
         'finite seed menu; python backend; BiCGSTAB classes listed as a known finding (DESIGN §8)', '§5 C12, §8'),
 'C13': (EM, 'x/y, s/y, x/s, elementwise_divide(eps, preconditioner, starting_tensor) for y = 1+z*z in [1,5], orders 2..4 (5), sizes with singleton substitutions, x ranks 1..3, z ranks 1..2, scalars of both signs and every scalar kind, seeds: |q*y-x| <= 100*eps|x|; x/s exact.',
         'finite seed menu', '§5 C13'),
 'C14': (EM + '; monitor on EVERY callback invocation', 'dmrg_cross and function_interpolate (uni-/multivariate) on all shapes over {2,3,4}^d, d=2,3, plus uneven / tiny / larger shapes, targets of exact TT rank 1..4 and a smooth function, eps in {1e-3,1e-6,1e-10}, seeds, start tensors of rank 1/3 (over-parameterised too): every index / value matrix handed to the user function is validated (shape M x d, column ranges / membership), result error <= 100*eps.',
         'finite seed menu', '§5 C14'),
})
CHECKS.update({
 'C05': (E2, 'Depth-first explicit-state search over ALL histories of public calls (65 event templates incl. every initial-guess argument position: constructors/algebra/rounding/slicing/reshaping/solvers/in-place set_core, reduce_dims, watch) of depth 2 (quick) / 3 unmerged + 4 merged on two pools (thorough) from 6 initial pools (the sixth: uniform order-4 structure with ONE interior core shape, depth 2 in both tiers); after EVERY transition the well-formedness predicate (cores 3-d/4-d, rank chain, boundary ranks, reported N/M/R/shape/is_ttm equal the cores, full().shape == M+N) is evaluated on EVERY live object.',
         'partial-order reduction: from depth 2 an event involves the newest object or is in-place; same-dtype operands; objects larger than 2e4 entries are not densified', '§4.2, §5 C05'),
 'C06': (E2, 'Same search with the immutability monitor: frozen records (core values, version counters, R, N, M, dtype, core count) of every live object compared after every transition; every TT argument position of every entry point (operands and initial guesses) is filled from the pool; views stay views under replay so writes through a result into its source are seen.',
         'as C05', '§4.2, §5 C06'),
})
CHECKS.update({
 'C15': ('bounded exhaustive enumeration of programs (expression trees) x tracking choices on the real library, dense autograd reference + finite differences',
         'ALL type-correct expression trees of depth <= 2 (3 thorough) over the differentiable TT operations (+,-,*,@ in all forms, scalar ops, mprod, transpose, ...) closed by every terminal (full, sum, norm, dot incl. partial, bilinear_form, slicing, apply_mask, cat, pad, kron, sum(axes), diag, mprod list) x 8 tracking choices (which operand, all cores or one core): value and every tracked-core gradient equal the dense-model autograd result (1e-9) and a central finite difference (1e-5); grad.watch/grad.grad return the same tensors with the cores\' shapes. Leaf rank profiles with a rank-1 last / first bond (1x1x1 cores) for all terminals at depth 0..1.',
         'float64; fixed small operand shapes [2,3,2] with ranks (2,2)/(3,2); values generic', '§5 C15'),
 'C16': (E1, 'For every achievable minimal rank profile over ranks <= 3 of base points of order 2..4 (5 thorough), tensors and operators, and z,w of rank 1..4: P(z) equals the checker\'s own dense tangent-space projector (built from unfolding SVDs), plus linearity, idempotence, self-adjointness, P(x)=x, residual orthogonality, rank <= 2r; riemannian_gradient equals the projected dense Euclidean gradient for three f.',
         'generic cores make the profile minimal (verified by SVD, else skipped and counted); tolerance 1e-9', '§5 C16'),
 'C17': (EM + ', both backends side by side, each case in a forked child', 'The extension is rebuilt from /repo\'s cpp/ sources (hash-keyed), and the C11 fast_matvec space (all structures incl. order 1, eps menu, seeds, initial guesses) and every C12 amen_solve configuration with <= 2 (3) deviations (preconditioner None/c/r, x0, local solver) run through python and cpp backends: same acceptance, each within its bound, mutual agreement; a crash of the compiled code is attributed to the case.',
         'built with -std=c++20 -lopenblas instead of setup.py flags (which cannot build here); finite seed menu', '§5 C17'),
})
PENDING = {}
ALL = ['C%02d' % i for i in range(1, 21)]

def main():
    checks = []
    for pid in ALL:
        if pid not in CHECKS:
            continue
        tech, text, note, dref = CHECKS[pid]
        checks.append({
            'property_id': pid,
            'quick_cmd': './check %s --tier quick' % pid,
            'thorough_cmd': './check %s --tier thorough' % pid,
            'evidence_file': '/verif/evidence/%s.json' % pid,
            'replay_cmd_template': './check --replay {path}',
            'engine': 'ttmc',
            'level_claimed': {'category': 'model_checking', 'text': text, 'design_ref': dref},
            'level_note': note,
            'technique': tech,
        })
    na = [{'property_id': p, 'reason': PENDING.get(p, 'check not built yet in this round (planned, see DESIGN.md §5); not claimed until its machinery exists')}
          for p in ALL if p not in CHECKS]
    man = {
        'version': 1,
        'setup_cmd': 'cd /verif && chmod +x check tools/*.sh && (PYTHONPATH=/verif:/repo /venv/bin/python -m ttmc.cppbuild || true)',
        'hooks': {'guard': 'TORCHTT_VERIF', 'enable': 'no source hooks: the checks import torchtt from /repo\'s working tree (PYTHONPATH) and observe it from outside (module attribute wrappers, tensor version counters)',
                  'baseline_off_cmd': 'cd /repo && /venv/bin/python -m pytest -ra -q -p no:cacheprovider --timeout=900 --continue-on-collection-errors',
                  'source_commits': [], 'add_only': True},
        'engines': [{'name': 'ttmc', 'path': '/verif/ttmc', 'serves_properties': sorted(CHECKS),
                     'kind_free_text': 'hand-written explicit-state / small-scope exhaustive explorer for Python, running the real library in lock-step with a dense reference model'}],
        'checks': checks,
        'not_applicable': na,
        'notes': 'Exit 0 = held on everything explored (KNOWN-FINDING lines for listed defects), 1 = unlisted violation (VIOLATION lines), 2 = harness error. TTMC_REPO overrides the repository path for mutation runs.',
    }
    with open(os.path.join(HERE, 'MANIFEST.json'), 'w') as f:
        json.dump(man, f, indent=1)
    print('checks:', [c['property_id'] for c in checks], 'not_applicable:', len(na))

if __name__ == '__main__':
    main()
