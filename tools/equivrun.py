#!/usr/bin/env python3
"""
False-alarm test: applies each behaviour-preserving refactoring in /verif/equiv/<id>/patch.diff to a fresh scratch worktree
of /repo's HEAD and runs EVERY property's quick check against it.  All checks must stay silent (exit 0).
usage: equivrun.py [--only id1,id2] [--checks C03,C04]
Writes /verif/equiv/RESULTS.md.
"""
import json, os, re, subprocess, sys, shutil, time
VERIF = os.path.dirname(os.path.dirname(os.path.abspath(__file__)))
REPO = '/repo'

def sh(cmd, cwd=None, env=None, timeout=7200):
    p = subprocess.run(cmd, cwd=cwd, shell=True, capture_output=True, text=True, timeout=timeout, env=env)
    return p.returncode, p.stdout + p.stderr

def main():
    ed = os.path.join(VERIF, 'equiv')
    ids = sorted(d for d in os.listdir(ed) if os.path.isdir(os.path.join(ed, d)))
    if '--only' in sys.argv:
        only = sys.argv[sys.argv.index('--only') + 1].split(',')
        ids = [i for i in ids if i in only]
    checks = [c['property_id'] for c in json.load(open(os.path.join(VERIF, 'MANIFEST.json')))['checks']]
    if '--checks' in sys.argv:
        checks = sys.argv[sys.argv.index('--checks') + 1].split(',')
    head = sh('git rev-parse --short HEAD', REPO)[1].strip()
    for eid in ids:
        d = os.path.join(ed, eid)
        wt = '/tmp/wt_equiv_%s' % eid
        sh('git worktree remove --force %s' % wt, REPO)
        sh('git worktree add -q --detach %s HEAD' % wt, REPO)
        res = {'head': head, 'checks': {}}
        try:
            rc, out = sh('git apply %s' % os.path.join(d, 'patch.diff'), wt)
            res['apply'] = 'ok' if rc == 0 else 'FAILED ' + out[-200:]
            if rc == 0:
                for c in checks:
                    t0 = time.time()
                    rcc, outc = sh('./check %s --tier quick' % c, VERIF, env=dict(os.environ, TTMC_REPO=wt))
                    res['checks'][c] = {'rc': rcc, 'classes': re.findall(r'class=(\S+) cases=(\d+)', outc)[:6], 'first': (re.findall(r'first: (.*)', outc) or [''])[0][:200],
                                        'harness': [l for l in outc.splitlines() if l.startswith('HARNESS')][:2], 'wall_s': round(time.time() - t0, 1)}
                    print(eid, c, 'rc=%d' % rcc, res['checks'][c]['classes'][:2], flush=True)
        finally:
            sh('git worktree remove --force %s' % wt, REPO)
            shutil.rmtree(wt, ignore_errors=True)
        json.dump(res, open(os.path.join(d, 'result.json'), 'w'), indent=1)
    sh('git checkout -- evidence', VERIF)
    with open(os.path.join(ed, 'RESULTS.md'), 'w') as f:
        f.write('# Behaviour-preserving refactorings vs. all quick checks (must stay silent)\n\n| refactoring | area | checks run | alarms |\n|---|---|---|---|\n')
        for eid in sorted(d for d in os.listdir(ed) if os.path.isdir(os.path.join(ed, d))):
            p = os.path.join(ed, eid, 'result.json')
            if not os.path.exists(p):
                continue
            r = json.load(open(p))
            note = json.load(open(os.path.join(ed, eid, 'note.json'))) if os.path.exists(os.path.join(ed, eid, 'note.json')) else {}
            alarms = ['%s:%s' % (c, v['classes'][:2] or v['harness'][:1]) for c, v in r['checks'].items() if v['rc'] != 0]
            f.write('| %s | %s | %d | %s |\n' % (eid, str(note.get('area', ''))[:60], len(r['checks']), '; '.join(alarms) if alarms else 'none'))

if __name__ == '__main__':
    main()
