#!/bin/bash
# Self-test of the known-findings mechanism (not a registered check): applies seeded change C04-3 (operator minus scalar loses the
# sign) to a scratch worktree, lists ONE of its violation classes as known in a temporary copy of known_findings.json and
# checks that (a) that class is printed as KNOWN-FINDING, (b) the other class is still a VIOLATION (exit 1), (c) with all
# reported classes listed the check exits 0.  The committed known_findings.json is restored afterwards.
set -e
cd "$(dirname "$0")/.."
WT=/tmp/wt_selftest_known
git -C /repo worktree remove --force $WT 2>/dev/null || true
git -C /repo worktree add -q --detach $WT HEAD
trap 'git -C /repo worktree remove --force $WT; git checkout -- known_findings.json evidence 2>/dev/null' EXIT
git -C $WT apply "$PWD/seeded/C04-3/patch.diff"
python3 - <<'PY'
import json
d=json.load(open('known_findings.json'))
d['known']=[{"property":"C04","cls":"ttm.Asubs.value","what":"(self-test) operator minus scalar"}]
json.dump(d,open('known_findings.json','w'),indent=1)
PY
set +e
out=$(TTMC_REPO=$WT ./check C04 --tier quick); rc=$?
echo "$out" | grep -E "^(KNOWN-FINDING|VIOLATION)"; echo "one class listed: rc=$rc (expected 1)"
# every OTHER class the first run reported (the seeded change also shows in the inexact-scalar and history-tier classes)
echo "$out" | grep -o "class=[^ ]*" | sed 's/class=//' | sort -u > /tmp/selftest_known_classes.txt
python3 - <<'PY'
import json
d=json.load(open('known_findings.json'))
have={k['cls'] for k in d['known']}
for cls in open('/tmp/selftest_known_classes.txt').read().split():
    if cls not in have:
        d['known'].append({"property":"C04","cls":cls,"what":"(self-test) "+cls})
json.dump(d,open('known_findings.json','w'),indent=1)
PY
rm -f /tmp/selftest_known_classes.txt
out=$(TTMC_REPO=$WT ./check C04 --tier quick); rc2=$?
echo "$out" | grep -E "^(KNOWN-FINDING|VIOLATION)"; echo "all classes listed: rc=$rc2 (expected 0)"
[ $rc = 1 ] && [ $rc2 = 0 ] && echo SELFTEST-OK
