#!/usr/bin/env python3
"""
Confirms a seeded change independently and runs the property's check against it.

usage: seedcheck.py <worktree> <k> <property> [--tier quick] [--skip-suite]
  <worktree>/_seed/<k>/{patch.diff,demo.py,meta.json} as produced by a sub-agent.
Steps (all in the scratch worktree, never in /repo):
  1. clean tree: demo must exit 0
  2. apply patch: pinned test suite must still pass (74 passed), demo must exit non-zero
  3. run ./check <property> with TTMC_REPO=<worktree>: record exit code and violation classes
  4. revert the patch
Writes /verif/seeded/<property>-<k>/ (patch.diff, demo.py, meta.json).
"""
import json, os, re, shutil, subprocess, sys, time

VERIF = os.path.dirname(os.path.dirname(os.path.abspath(__file__)))
ENV = dict(os.environ, OMP_NUM_THREADS='2', MKL_NUM_THREADS='2', OPENBLAS_NUM_THREADS='2')


def sh(cmd, cwd, timeout=3600, env=ENV):
    p = subprocess.run(cmd, cwd=cwd, shell=True, capture_output=True, text=True, timeout=timeout, env=env)
    return p.returncode, p.stdout + p.stderr


def main():
    wt, k, prop = sys.argv[1], sys.argv[2], sys.argv[3]
    tier = 'quick'
    if '--tier' in sys.argv:
        tier = sys.argv[sys.argv.index('--tier') + 1]
    others = []
    if '--also' in sys.argv:
        others = sys.argv[sys.argv.index('--also') + 1].split(',')
    sd = os.path.join(wt, '_seed', k)
    meta = json.load(open(os.path.join(sd, 'meta.json')))
    rec = {'agent_meta': meta, 'property': prop, 'verified_at': time.strftime('%Y-%m-%d %H:%M:%S')}
    sh('git checkout -- torchtt', wt)
    rc0, out0 = sh('/venv/bin/python _seed/%s/demo.py' % k, wt)
    rec['demo_clean_rc'] = rc0
    rc, out = sh('git apply _seed/%s/patch.diff' % k, wt)
    if rc != 0:
        rec['apply_failed'] = out[-500:]
        print(json.dumps(rec, indent=1)); return 1
    try:
        rc1, out1 = sh('/venv/bin/python _seed/%s/demo.py' % k, wt)
        rec['demo_patched_rc'] = rc1
        if '--skip-suite' not in sys.argv:
            rcs, outs = sh('/venv/bin/python -m pytest -q -p no:cacheprovider --timeout=900 2>&1 | tail -3', wt)
            m = re.search(r'(\d+) passed', outs)
            rec['suite'] = outs.strip().splitlines()[-1] if outs.strip() else ''
            rec['suite_passed'] = int(m.group(1)) if m else 0
            rec['suite_failed'] = 'failed' in outs
        results = {}
        for p in [prop] + others:
            t0 = time.time()
            rcc, outc = sh('./check %s --tier %s' % (p, tier), VERIF, env=dict(ENV, TTMC_REPO=wt, OMP_NUM_THREADS='1'))
            classes = re.findall(r'class=(\S+) cases=(\d+)', outc)
            results[p] = {'rc': rcc, 'classes': classes[:12], 'summary': outc.strip().splitlines()[-1] if outc.strip() else '', 'wall_s': round(time.time() - t0, 1),
                          'harness': [l for l in outc.splitlines() if l.startswith('HARNESS')][:3]}
        rec['checks'] = results
    finally:
        sh('git checkout -- torchtt', wt)
    sid = sys.argv[sys.argv.index('--id') + 1] if '--id' in sys.argv else '%s-%s' % (prop, k)
    dest = os.path.join(VERIF, 'seeded', sid)
    os.makedirs(dest, exist_ok=True)
    shutil.copy(os.path.join(sd, 'patch.diff'), dest)
    shutil.copy(os.path.join(sd, 'demo.py'), dest)
    ok = rec.get('demo_clean_rc') == 0 and rec.get('demo_patched_rc', 0) != 0 and (rec.get('suite_passed', 74) >= 74 and not rec.get('suite_failed', False))
    rec['confirmed'] = bool(ok)
    rec['detected'] = any(v['rc'] == 1 for v in rec.get('checks', {}).values())
    json.dump({'property': prop, 'breaks': meta.get('what_breaks') or meta.get('breaks'), 'needs_to_manifest': meta.get('needs_to_manifest'), 'files': meta.get('files'),
               'confirmed_by_me': rec}, open(os.path.join(dest, 'meta.json'), 'w'), indent=1)
    print('%s confirmed=%s detected=%s' % (sid, ok, rec['detected']))
    for p, v in rec.get('checks', {}).items():
        print('   ', p, 'rc=%d' % v['rc'], v['classes'][:4], v['harness'][:1])
    if not ok:
        print('    demo clean rc', rec.get('demo_clean_rc'), 'patched rc', rec.get('demo_patched_rc'), 'suite', rec.get('suite'))
    return 0


if __name__ == '__main__':
    sys.exit(main())
