#!/usr/bin/env python3
"""
Re-runs the property's check against every confirmed seeded change in /verif/seeded, each applied to a fresh scratch
worktree of /repo's current HEAD (under /tmp, removed afterwards; /repo itself is never touched).

usage: seedrun.py [--tier quick] [--only C03-1,C10-2] [--jobs 1]
Writes /verif/seeded/RESULTS.md and updates <id>/meta.json['at_head'].
"""
import json, os, re, subprocess, sys, time, shutil

VERIF = os.path.dirname(os.path.dirname(os.path.abspath(__file__)))
REPO = '/repo'


def sh(cmd, cwd=None, env=None, timeout=7200):
    p = subprocess.run(cmd, cwd=cwd, shell=True, capture_output=True, text=True, timeout=timeout, env=env)
    return p.returncode, p.stdout + p.stderr


def main():
    tier = sys.argv[sys.argv.index('--tier') + 1] if '--tier' in sys.argv else 'quick'
    only = sys.argv[sys.argv.index('--only') + 1].split(',') if '--only' in sys.argv else None
    sd = os.path.join(VERIF, 'seeded')
    ids = sorted(d for d in os.listdir(sd) if os.path.isdir(os.path.join(sd, d)))
    if only:
        ids = [i for i in ids if i in only]
    head = sh('git rev-parse --short HEAD', REPO)[1].strip()
    rows = []
    for sid in ids:
        d = os.path.join(sd, sid)
        meta = json.load(open(os.path.join(d, 'meta.json')))
        prop = meta['property']
        wt = '/tmp/wt_seedrun_%s' % sid
        sh('git worktree remove --force %s' % wt, REPO)
        rc, out = sh('git worktree add -q --detach %s HEAD' % wt, REPO)
        res = {'head': head, 'tier': tier}
        try:
            rc, out = sh('git apply %s' % os.path.join(d, 'patch.diff'), wt)
            if rc != 0:
                rc, out = sh('git apply --3way %s' % os.path.join(d, 'patch.diff'), wt)
            if rc != 0:
                res['apply'] = 'FAILED: ' + out[-300:]
            else:
                res['apply'] = 'ok'
                # the demos locate the library relative to their own file; here they live in /verif/seeded, so the scratch
                # worktree is put on PYTHONPATH (C17 demos additionally need a built extension and are not run here)
                if prop != 'C17':
                    rcd, outd = sh('/venv/bin/python %s' % os.path.join(d, 'demo.py'), wt, env=dict(os.environ, OMP_NUM_THREADS='2', PYTHONPATH=wt))
                    res['demo_rc'] = rcd
                if '--no-check' in sys.argv:
                    old = meta.get('at_head', {})
                    for kk in ('check_rc', 'classes', 'wall_s', 'harness'):
                        if kk in old:
                            res[kk] = old[kk]
                else:
                    t0 = time.time()
                    rcc, outc = sh('./check %s --tier %s' % (prop, tier), VERIF, env=dict(os.environ, TTMC_REPO=wt))
                    res['check_rc'] = rcc
                    res['classes'] = re.findall(r'class=(\S+) cases=(\d+)', outc)[:10]
                    res['wall_s'] = round(time.time() - t0, 1)
                    res['harness'] = [l for l in outc.splitlines() if l.startswith('HARNESS')][:2]
        finally:
            sh('git worktree remove --force %s' % wt, REPO)
            shutil.rmtree(wt, ignore_errors=True)
        meta['at_head'] = res
        json.dump(meta, open(os.path.join(d, 'meta.json'), 'w'), indent=1)
        det = 'DETECTED' if res.get('check_rc') == 1 else ('HARNESS-ERROR' if res.get('check_rc') == 2 else ('missed' if res.get('apply') == 'ok' else 'n/a'))
        rows.append((sid, prop, res.get('apply', '?')[:6], res.get('demo_rc'), det, '; '.join('%s(%s)' % tuple(c) for c in res.get('classes', [])[:3]), (meta.get('breaks') or '')[:110].replace('\n', ' ')))
        print(rows[-1][:6], flush=True)
    # evidence files were rewritten by the runs against the scratch copies: restore them from git
    sh('git checkout -- evidence', VERIF)
    # the table always lists EVERY seeded change, from the result stored in its meta.json (this run's or an earlier one's)
    allrows = []
    for sid in sorted(d for d in os.listdir(sd) if os.path.isdir(os.path.join(sd, d))):
        meta = json.load(open(os.path.join(sd, sid, 'meta.json')))
        res = meta.get('at_head', {})
        det = 'DETECTED' if res.get('check_rc') == 1 else ('HARNESS-ERROR' if res.get('check_rc') == 2 else ('missed' if res.get('apply') == 'ok' and 'check_rc' in res else 'n/a'))
        allrows.append((sid, meta['property'], res.get('head', '?'), res.get('apply', '?')[:6], res.get('demo_rc', 'not run'), det,
                        '; '.join('%s(%s)' % tuple(c) for c in res.get('classes', [])[:3]), (meta.get('breaks') or '')[:110].replace('\n', ' ').replace('|', '/')))
    with open(os.path.join(sd, 'RESULTS.md'), 'w') as f:
        f.write('# Seeded changes vs. checks (quick tier; each patch applied to a fresh scratch worktree of /repo at the commit in column 3)\n\n')
        f.write('%d changes, %d detected by the property\'s own quick check.\n\n' % (len(allrows), sum(1 for r in allrows if r[5] == 'DETECTED')))
        f.write('| id | property | repo commit | patch applies | demo rc with patch (0 = demo passes) | check | violation classes (cases) | what the change breaks |\n|---|---|---|---|---|---|---|---|\n')
        for r in allrows:
            f.write('| %s | %s | %s | %s | %s | %s | %s | %s |\n' % r)
    print('detected %d / %d' % (sum(1 for r in rows if r[4] == 'DETECTED'), len(rows)))


if __name__ == '__main__':
    main()
