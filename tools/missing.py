#!/usr/bin/env python3
"""prints the source lines of the anchored functions that a strided sample of a check's cases did not execute"""
import sys, os, json, ast, re, time, importlib
sys.path.insert(0, '/verif'); sys.path.insert(0, os.environ.get('TTMC_REPO', '/repo'))
import warnings; warnings.filterwarnings('ignore')
import coverage, torch
torch.set_num_threads(2)
prop, tier = sys.argv[1], (sys.argv[2] if len(sys.argv) > 2 else 'quick')
budget = float(sys.argv[3]) if len(sys.argv) > 3 else 40
mod = importlib.import_module('ttmc.checks.' + prop.lower())
if hasattr(mod, 'init_worker'): mod.init_worker()
total = sum(1 for _ in mod.cases(tier, 0))
stride = max(1, total // 3000)
cov = coverage.Coverage(data_file=None, include=['/repo/torchtt/*'])
cov.start(); t0 = time.time(); n = 0
for i, c in enumerate(mod.cases(tier, 0)):
    if i % stride: continue
    try: mod.run_case(c)
    except Exception as e: pass
    n += 1
    if time.time() - t0 > budget: break
cov.stop()
rec = [json.loads(l) for l in open('/verif/properties.jsonl') if json.loads(l)['id'] == prop][0]
wanted = {}
for m in rec['anchors']['mechanism']:
    cur = None
    for part in re.split(r'[,;]', m['where']):
        mm = re.match(r'\s*(torchtt/\S+\.py)', part)
        if mm: cur = mm.group(1)
        for fn in re.findall(r'\(([A-Za-z_][A-Za-z_0-9\.]*)', part):
            if cur: wanted.setdefault(cur, set()).add(fn.split('.')[-1])
print('sampled', n, 'of', total)
for rel, names in wanted.items():
    path = '/repo/' + rel
    _, stmts, _, missing, _ = cov.analysis2(path)
    src = open(path).read().splitlines()
    for node in ast.walk(ast.parse(open(path).read())):
        if isinstance(node, ast.FunctionDef) and node.name in names:
            miss = [l for l in missing if node.lineno < l <= node.end_lineno]
            if miss:
                print('---', rel, node.name, '%d missing' % len(miss))
                for l in miss: print('  %4d %s' % (l, src[l - 1].rstrip()[:130]))
